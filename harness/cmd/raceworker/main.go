// raceworker (C13): builds a world by a generated history, freezes it, and runs queries
// from G goroutines released by a barrier - shared and private filters, cached and
// uncached, typed and unsafe, with and without relation targets. Built with -race:
// the race detector decides race-freedom; every goroutine compares its own query
// results with the (frozen) model.
package main

import (
	"encoding/json"
	"flag"
	"fmt"
	"os"
	"sort"
	"strings"
	"sync"
	"sync/atomic"
	"time"

	"github.com/mlange-42/ark/ecs"
	"verifharness/eng"
	"verifharness/typed"
	u "verifharness/universe"
)

type panelEntry struct {
	spec   *eng.FSpec
	tf     typed.TFilter    // shared typed filter (nil for unsafe)
	uf     ecs.UnsafeFilter // shared unsafe filter
	cached bool
}

type out struct {
	Prop       string              `json:"prop"`
	Cases      int                 `json:"cases"`
	Ops        int64               `json:"ops"`
	Hashes     map[string]bool     `json:"hashes"`
	Violations []map[string]any    `json:"violations"`
	Samples    [][]string          `json:"samples"`
	Counters   map[string]int64    `json:"counters"`
	Scenarios  map[string][]string `json:"scenarios"`
	WallS      float64             `json:"wall_s"`
}

var gcounts = []int{2, 3, 4, 8, 16, 32, 64}

func main() {
	seed := flag.Uint64("seed", 1, "seed")
	shard := flag.Int("shard", 0, "")
	nshards := flag.Int("nshards", 1, "")
	cases := flag.Int("cases", 20, "")
	allG := flag.Bool("allg", false, "every goroutine count 2..64")
	reps := flag.Int("reps", 4, "phases per case")
	outPath := flag.String("out", "", "")
	flag.String("progress", "", "")
	maxComps := flag.Int("maxcomps", 256, "")
	only := flag.Int("only", -1, "")
	flag.Parse()
	typed.Counting = false

	if *allG {
		gcounts = nil
		for g := 2; g <= 64; g++ {
			gcounts = append(gcounts, g)
		}
	}
	res := out{Prop: "C13", Hashes: map[string]bool{}, Counters: map[string]int64{}, Scenarios: map[string][]string{}}
	t0 := time.Now()
	pf := eng.Profiles["query"]()
	pf.W[eng.KOpenQuery], pf.W[eng.KStepQuery], pf.W[eng.KCloseQuery] = 0, 0, 0
	pf.LeakPct = 0
	o := &eng.Opts{MaxComponents: *maxComps, Avoid: map[string]bool{}}
	var mu sync.Mutex
	if *shard == 0 {
		// directed scenarios about the lock under many queries (scripted, single goroutine)
		for _, sc := range eng.Scenarios {
			for _, pr := range sc.Props {
				if pr != "C13" || (sc.OnlyIf != nil && !sc.OnlyIf()) {
					continue
				}
				var msgs []string
				func() {
					defer func() {
						if p := recover(); p != nil {
							msgs = append(msgs, fmt.Sprintf("scenario panicked: %v", p))
						}
					}()
					msgs = sc.Run()
				}()
				if msgs == nil {
					msgs = []string{}
				}
				res.Scenarios[sc.Name] = msgs
			}
		}
	}
	for c := *shard; c < *cases; c += *nshards {
		if *only >= 0 && c != *only {
			continue
		}
		d, m, g := eng.BuildFrozen(*seed, c, &pf, o, 120+c%80)
		eng.CompGuard = false
		d.Guard = false // the driver's argument builders are used from many goroutines below: no shared bookkeeping
		res.Cases++
		var msgs []string
		for _, v := range d.Viol {
			msgs = append(msgs, v.String())
		}
		// worlds of their own, one per goroutine, share nothing (the parallel-simulation pattern): each registers component
		// types - the universe in its own order and four types no world of this process has seen before - and works with
		// them while the others do the same. Any state the library keeps per process shows under the race detector.
		{
			fresh := eng.ManyPlain()
			var wg sync.WaitGroup
			start := make(chan struct{})
			var failed atomic.Int64
			for gi := 0; gi < 4; gi++ {
				gi := gi
				wg.Add(1)
				go func() {
					defer wg.Done()
					defer func() {
						if p := recover(); p != nil {
							failed.Add(1)
						}
					}()
					<-start
					w := ecs.NewWorld(4)
					for k := 0; k < u.N; k++ {
						u.Types[(k*7+gi*5+c)%u.N].RegisterID(w)
					}
					var ids []ecs.ID
					for k := 0; k < 4; k++ {
						ids = append(ids, ecs.TypeID(w, fresh[(c*4+k)%len(fresh)].Type()))
					}
					es := make([]ecs.Entity, 0, 8)
					for k := 0; k < 8; k++ {
						es = append(es, w.Unsafe().NewEntity(ids[k%4], ids[(k+1)%4]))
					}
					q := ecs.NewUnsafeFilter(w, ids[0]).Query()
					n := 0
					for q.Next() {
						n++
					}
					if n != 4 {
						failed.Add(1)
					}
					w.RemoveEntity(es[0])
					w.Reset()
				}()
			}
			close(start)
			wg.Wait()
			res.Counters["independent-world-groups"]++
			if failed.Load() > 0 {
				msgs = append(msgs, fmt.Sprintf("%d of 4 independent worlds on goroutines of their own failed", failed.Load()))
			}
		}
		G := gcounts[c%len(gcounts)]
		desc := []string{d.Cfg.String(), fmt.Sprintf("goroutines=%d alive=%d", G, m.NAlive)}
		for phase := 0; phase < *reps && len(msgs) == 0; phase++ {
			// shared panel: created here, i.e. its first use (and first use after the archetype set changed) is concurrent
			var panel []panelEntry
			for k := 0; k < 6; k++ {
				spec := g.FilterSpecFor(false, k < 4)
				pe := panelEntry{spec: spec}
				if spec.Kind == eng.FUnsafe {
					pe.uf = d.BuildUnsafe(spec)
				} else {
					pe.tf = d.BuildTyped(spec)
					if k%2 == 1 {
						pe.tf.Register()
						pe.cached = true
					}
				}
				panel = append(panel, pe)
				desc = append(desc, fmt.Sprintf("phase %d shared filter %s cached=%v", phase, spec, pe.cached))
			}
			// one shared, unregistered typed filter per arity 0..8 (each arity is separately generated code)
			for a := 0; a <= 8; a++ {
				spec := &eng.FSpec{Kind: eng.FZero}
				if a > 0 {
					var cands []int
					for ti, t := range typed.Tuples {
						if len(t.Comps) == a && t.NewFilter != nil {
							cands = append(cands, ti)
						}
					}
					spec = &eng.FSpec{Kind: eng.FTyped, Tuple: cands[(c+phase)%len(cands)]}
				}
				panel = append(panel, panelEntry{spec: spec, tf: d.BuildTyped(spec)})
			}
			// a Batch(rel...) call on a filter leaves spare capacity in its relation slice; later Query(rel...) calls must
			// still get private copies. Done here, sequentially, on every shared typed filter with a relation component.
			for _, pe := range panel {
				if pe.tf == nil {
					continue
				}
				if qr := g.QRelsFor(pe.spec, 100); len(qr) > 0 {
					func() {
						defer func() { recover() }()
						_ = pe.tf.Batch(d.Rels(qr, d.FilterOrder(pe.spec), c%3))
					}()
					res.Counters["shared-filters-with-prior-batch-call"]++
				}
			}
			// ... and a Query(rel...) call that is rejected for its arguments (a dead relation target) must leave the
			// shared filter object usable: nothing it locked may stay locked. Done sequentially, before the goroutines start.
			var dead eng.EID = -1
			for e := len(m.Ents) - 1; e >= 0; e-- {
				if !m.Ents[e].Alive && !d.Handle(eng.EID(e)).IsZero() {
					dead = eng.EID(e)
					break
				}
			}
			blocked := false
			for _, pe := range panel {
				if pe.tf == nil || dead < 0 {
					continue
				}
				var rc []eng.RelT
				for _, cmp := range d.FilterOrder(pe.spec) {
					if u.Types[cmp].IsRel {
						rc = append(rc, eng.RelT{C: cmp, T: dead})
						break
					}
				}
				if len(rc) == 0 {
					continue
				}
				func() {
					defer func() { recover() }()
					q := pe.tf.Query(d.Rels(rc, d.FilterOrder(pe.spec), c%3))
					q.Close()
				}()
				res.Counters["shared-filters-with-prior-rejected-query"]++
				if !eng.Completes(func() {
					defer func() { recover() }()
					q := pe.tf.Query(nil)
					q.Close()
				}) {
					msgs = append(msgs, fmt.Sprintf("phase %d: a plain Query on shared filter %s blocks for ever after a Query with a dead relation target was rejected", phase, pe.spec))
					blocked = true
				}
			}
			if blocked {
				break
			}
			// relation argument slices shared between goroutines (callers may well reuse one []ecs.Relation): built by
			// component type (ecs.Rel[T]), which the library resolves lazily on first use
			sharedRels := map[int][]ecs.Relation{}
			sharedQ := map[int][]eng.RelT{}
			for pi, pe := range panel {
				if pe.tf == nil {
					continue
				}
				if qr := g.QRelsFor(pe.spec, 100); len(qr) > 0 {
					sharedQ[pi] = qr
					sharedRels[pi] = d.Rels(qr, d.FilterOrder(pe.spec), 0)
				}
			}
			res.Counters["shared-relation-argument-slices"] += int64(len(sharedRels))
			// per-goroutine plans are drawn sequentially (the generator is not thread-safe)
			type step struct {
				pi     int // panel index or -1 for a private filter
				spec   *eng.FSpec
				qrels  []eng.RelT
				expect []eng.EID
				mode   int
				tf     typed.TFilter
				uf     ecs.UnsafeFilter
				rels   []ecs.Relation // non-nil: pass this (shared) slice instead of building one
				urels  []ecs.Relation // non-nil: the (shared) argument list of an unsafe query
			}
			plans := make([][]step, G)
			for gi := 0; gi < G; gi++ {
				for k := 0; k < 6; k++ {
					var s step
					if g.R.Chance(70) {
						s.pi = g.R.Intn(len(panel))
						s.spec = panel[s.pi].spec
						s.tf, s.uf = panel[s.pi].tf, panel[s.pi].uf
					} else {
						s.pi = -1
						s.spec = g.FilterSpecFor(false, true)
						// private filters are built here (the driver's builders are not thread-safe); their first use is concurrent
						if s.spec.Kind == eng.FUnsafe {
							s.uf = d.BuildUnsafe(s.spec)
						} else {
							s.tf = d.BuildTyped(s.spec)
						}
					}
					s.qrels = g.QRelsFor(s.spec, 40)
					if s.pi >= 0 && sharedRels[s.pi] != nil && g.R.Chance(60) {
						s.qrels = sharedQ[s.pi]
						s.rels = sharedRels[s.pi]
					}
					s.expect = m.Select(s.spec, s.qrels)
					s.mode = g.R.Intn(5)
					plans[gi] = append(plans[gi], s)
				}
				// every goroutine also uses three of the per-arity filters, starting at a different arity
				for k := 0; k < 3; k++ {
					pi := 6 + (gi+k*3)%9
					s := step{pi: pi, spec: panel[pi].spec, tf: panel[pi].tf, mode: g.R.Intn(5)}
					s.qrels = g.QRelsFor(s.spec, 70)
					if sharedRels[pi] != nil && g.R.Chance(70) {
						s.qrels = sharedQ[pi]
						s.rels = sharedRels[pi]
					}
					s.expect = m.Select(s.spec, s.qrels)
					// put it first for some goroutines so that first uses collide
					if gi%2 == 0 {
						plans[gi] = append([]step{s}, plans[gi]...)
					} else {
						plans[gi] = append(plans[gi], s)
					}
				}
			}
			// collision filters: three further fresh, shared, unregistered typed filters that every goroutine queries first,
			// in the same order - right after the barrier all goroutines meet in the lazy initialisation of the same filter
			for k := 0; k < 3; k++ {
				a := (c + phase*3 + k) % 9
				spec := &eng.FSpec{Kind: eng.FZero}
				if a > 0 {
					var cands []int
					for ti, t := range typed.Tuples {
						if len(t.Comps) == a && t.NewFilter != nil {
							cands = append(cands, ti)
						}
					}
					spec = &eng.FSpec{Kind: eng.FTyped, Tuple: cands[(c+phase+k)%len(cands)]}
				}
				pe := panelEntry{spec: spec, tf: d.BuildTyped(spec)}
				if k == 2 {
					// the third one is registered: the first query of a cached filter is concurrent, too
					pe.tf.Register()
					pe.cached = true
					res.Counters["registered-collision-filters"]++
				}
				expect := m.Select(spec, nil)
				for gi := 0; gi < G; gi++ {
					s := step{pi: len(panel), spec: spec, tf: pe.tf, expect: expect, mode: (gi + k) % 5}
					front := append([]step{}, plans[gi][:k]...)
					plans[gi] = append(append(front, s), plans[gi][k:]...)
				}
				panel = append(panel, pe)
				res.Counters["collision-filters"]++
			}
			// ... and before those, one ID-based filter over a relation component that every goroutine queries with the same
			// []ecs.Relation built with ecs.Rel[T] (resolved lazily by the library): the very first thing each goroutine does
			// after the barrier, i.e. before it has passed through any mutex
			{
				rc := u.RelIdx[(c+phase)%3]
				tgt := eng.ZeroE
				for e := len(m.Ents) - 1; e >= 0; e-- {
					if m.Ents[e].Alive && m.Ents[e].Mask.Has(rc) {
						tgt = m.Ents[e].Tgt[rc]
						break
					}
				}
				spec := &eng.FSpec{Kind: eng.FUnsafe, With: []int{rc}}
				qrels := []eng.RelT{{C: rc, T: tgt}}
				pe := panelEntry{spec: spec, uf: d.BuildUnsafe(spec)}
				shared := []ecs.Relation{u.Types[rc].Rel(d.Handle(tgt))}
				expect := m.Select(spec, qrels)
				for gi := 0; gi < G; gi++ {
					s := step{pi: len(panel), spec: spec, uf: pe.uf, qrels: qrels, expect: expect, mode: 2 + gi%3, urels: shared}
					plans[gi] = append([]step{s}, plans[gi]...)
				}
				panel = append(panel, pe)
				res.Counters["shared-relation-lists-for-unsafe-queries"]++
			}
			if phase%2 == 1 {
				// in every other phase the first thing all goroutines do is the first query of a fresh *registered* filter
				// (arity cycling 0..8): nothing they passed through before orders their accesses to it
				a := (c + phase) % 9
				spec := &eng.FSpec{Kind: eng.FZero}
				if a > 0 {
					var cands []int
					for ti, t := range typed.Tuples {
						if len(t.Comps) == a && t.NewFilter != nil {
							cands = append(cands, ti)
						}
					}
					spec = &eng.FSpec{Kind: eng.FTyped, Tuple: cands[(c+phase)%len(cands)]}
				}
				pe := panelEntry{spec: spec, tf: d.BuildTyped(spec), cached: true}
				pe.tf.Register()
				expect := m.Select(spec, nil)
				for gi := 0; gi < G; gi++ {
					s := step{pi: len(panel), spec: spec, tf: pe.tf, expect: expect, mode: gi % 5}
					plans[gi] = append([]step{s}, plans[gi]...)
				}
				panel = append(panel, pe)
				res.Counters["registered-filters-queried-first-by-all-goroutines"]++
			}
			holdAll := phase == 1 && G == 64 // all 64 queries open at the same time
			start := make(chan struct{})
			var wg, opened sync.WaitGroup
			release := make(chan struct{})
			if holdAll {
				opened.Add(G)
			}
			var queries, visited int64
			for gi := 0; gi < G; gi++ {
				wg.Add(1)
				go func(gi int) {
					defer wg.Done()
					var local []string
					var nq, nv int64
					signalled := false
					defer func() {
						if p := recover(); p != nil {
							local = append(local, fmt.Sprintf("goroutine %d panicked: %v", gi, p))
						}
						if holdAll && !signalled {
							opened.Done() // a goroutine that failed before opening its query must not block the others
						}
						mu.Lock()
						msgs = append(msgs, local...)
						queries += nq
						visited += nv
						mu.Unlock()
					}()
					<-start
					for si, s := range plans[gi] {
						tf, uf := s.tf, s.uf
						want := map[ecs.Entity]int{}
						for _, e := range s.expect {
							want[d.Handle(e)] = 1
						}
						order := d.FilterOrder(s.spec)
						hold := holdAll && si == 0
						var onOpen func()
						if hold {
							onOpen = func() {
								signalled = true
								opened.Done()
								<-release
							}
						}
						rels := s.rels
						if s.urels != nil {
							rels = s.urels
						}
						n, errs := runQuery(d, m, tf, uf, s.spec, s.qrels, rels, order, want, s.mode, gi, G, onOpen)
						nq++
						nv += int64(n)
						local = append(local, errs...)
					}
				}(gi)
			}
			close(start)
			if holdAll {
				opened.Wait()
				if !d.W.IsLocked() {
					mu.Lock()
					msgs = append(msgs, "world not locked while 64 queries are open")
					mu.Unlock()
				}
				res.Counters["phases-with-64-open-queries"]++
				close(release)
			}
			wg.Wait()
			res.Counters["queries"] += queries
			res.Counters["entities-visited"] += visited
			res.Counters["phases"]++
			res.Counters[fmt.Sprintf("goroutines=%02d", G)]++
			// after all have finished the world must be unlocked and usable
			if d.W.IsLocked() {
				msgs = append(msgs, "world still locked after all goroutines finished their queries")
				break
			}
			for _, pe := range panel {
				if pe.cached {
					pe.tf.Unregister()
				}
			}
			// change the set of archetypes: the next phase's first Query calls refresh the filters' hints concurrently
			func() {
				defer func() {
					if p := recover(); p != nil {
						msgs = append(msgs, fmt.Sprintf("structural operation after the queries panicked: %v", p))
					}
				}()
				ids := []ecs.ID{d.ID[(phase*7+c)%u.N], d.ID[(phase*3+c+5)%u.N]}
				if ids[0] == ids[1] {
					ids = ids[:1]
				}
				ok := true
				for _, id := range ids {
					for _, r := range u.RelIdx {
						if id == d.ID[r] {
							ok = false
						}
					}
				}
				if ok {
					e := d.U.NewEntity(ids...)
					d.W.RemoveEntity(e)
				} else {
					e := d.W.NewEntity()
					d.W.RemoveEntity(e)
				}
			}()
		}
		h := fmt.Sprintf("%x-%d", *seed, c)
		res.Hashes[h] = true
		if len(msgs) > 0 {
			sort.Strings(msgs)
			res.Violations = append(res.Violations, map[string]any{"case": c, "seed": *seed, "config": d.Cfg.String(), "violations": msgs[:min(len(msgs), 10)], "ops": desc})
			if len(res.Violations) >= 3 {
				break
			}
		} else if len(res.Samples) < 2 {
			res.Samples = append(res.Samples, desc[:min(len(desc), 12)])
		}
	}
	res.WallS = time.Since(t0).Seconds()
	b, _ := json.Marshal(res)
	if *outPath != "" {
		os.WriteFile(*outPath, b, 0o644)
	} else {
		fmt.Println(string(b))
	}
	for _, v := range res.Violations {
		fmt.Println("VIOLATION-CASE", v["case"], strings.Join(v["violations"].([]string), "\n   "))
	}
}

// runQuery runs one query from one goroutine and compares it with the expectation. Only goroutine-local
// state is written; component values are only read (and written) for entities of this goroutine's partition.
func runQuery(d *eng.Drv, m *eng.Model, tf typed.TFilter, uf ecs.UnsafeFilter, spec *eng.FSpec, qrels []eng.RelT, shared []ecs.Relation, order []int,
	want map[ecs.Entity]int, mode, gi, G int, onOpen func()) (int, []string) {
	var errs []string
	seen := map[ecs.Entity]int{}
	n := 0
	style := gi % 3
	if tf != nil {
		args := shared
		if args == nil {
			args = d.Rels(qrels, order, style)
		}
		q := tf.Query(args)
		if onOpen != nil {
			onOpen()
		}
		switch mode {
		case 0: // count only, then close
			if c := q.Count(); c != len(want) {
				errs = append(errs, fmt.Sprintf("g%d: Count()=%d, expected %d for %s qrels=%v", gi, c, len(want), spec, qrels))
			}
			q.Close()
			return 0, errs
		case 1: // EntityAt then early close
			if len(want) > 0 {
				if e := q.EntityAt(len(want) - 1); want[e] != 1 {
					errs = append(errs, fmt.Sprintf("g%d: EntityAt(last)=%v is not a matching entity for %s", gi, e, spec))
				}
			}
			if q.Next() {
				if want[q.Entity()] != 1 {
					errs = append(errs, fmt.Sprintf("g%d: first entity %v does not match %s", gi, q.Entity(), spec))
				}
				q.Close()
			}
			return 1, errs
		}
		cnt := q.Count()
		cs := tf.Comps()
		for q.Next() {
			h := q.Entity()
			seen[h]++
			n++
			if n > 10*len(want)+100 {
				q.Close()
				errs = append(errs, fmt.Sprintf("g%d: query %s runs away", gi, spec))
				break
			}
			if len(cs) > 0 && int(h.ID())%G == gi {
				ptrs := q.Get()
				id, ok := d.ByH[h]
				if ok {
					for j, c := range cs {
						v, cons := u.Types[c].Dec(ptrs[j])
						if !cons || v != m.Ents[id].Val[c] {
							errs = append(errs, fmt.Sprintf("g%d: query %s: component %s of %v reads %d, model %d", gi, spec, u.Types[c].Name, h, v, m.Ents[id].Val[c]))
						}
						if !u.Types[c].HasPtr && !u.Types[c].ZeroSize {
							u.Types[c].Enc(ptrs[j], m.Ents[id].Val[c]) // write through the pointer (own partition only)
						}
						if u.Types[c].IsRel {
							if t := q.GetRelation(j); t != d.Handle(m.Ents[id].Tgt[c]) {
								errs = append(errs, fmt.Sprintf("g%d: query %s: GetRelation(%d) of %v = %v", gi, spec, j, h, t))
							}
						}
					}
				}
			}
		}
		if cnt != len(want) {
			errs = append(errs, fmt.Sprintf("g%d: Count()=%d, expected %d for %s qrels=%v", gi, cnt, len(want), spec, qrels))
		}
	} else {
		all := append(append([]eng.RelT{}, spec.Rels...), qrels...)
		args := shared
		if args == nil {
			args = d.Rels(all, nil, gi%2)
		}
		q := uf.Query(args...)
		if onOpen != nil {
			onOpen()
		}
		if mode == 0 {
			if c := q.Count(); c != len(want) {
				errs = append(errs, fmt.Sprintf("g%d: unsafe Count()=%d, expected %d for %s", gi, c, len(want), spec))
			}
			q.Close()
			return 0, errs
		}
		for q.Next() {
			h := q.Entity()
			seen[h]++
			n++
			if n > 10*len(want)+100 {
				q.Close()
				errs = append(errs, fmt.Sprintf("g%d: unsafe query %s runs away", gi, spec))
				break
			}
			if mode == 1 && n == 1 {
				q.Close()
				if want[h] != 1 {
					errs = append(errs, fmt.Sprintf("g%d: first entity %v does not match %s", gi, h, spec))
				}
				return 1, errs
			}
		}
	}
	for h, k := range want {
		if seen[h] != k {
			errs = append(errs, fmt.Sprintf("g%d: %s qrels=%v visited matching %v %d times", gi, spec, qrels, h, seen[h]))
			break
		}
	}
	for h := range seen {
		if want[h] == 0 {
			errs = append(errs, fmt.Sprintf("g%d: %s qrels=%v visited non-matching %v", gi, spec, qrels, h))
			break
		}
	}
	return n, errs
}
