// regworker (C18): component / resource registries: stable and distinct IDs, usability of the
// documented maximum number of component types (-maxcomps 256, or 64 under ark_tiny), rejection
// of over-max and locked-world registrations without consuming an ID, resources as a map.
package main

import (
	"encoding/json"
	"flag"
	"fmt"
	"os"
	"reflect"
	"time"

	"github.com/mlange-42/ark/ecs"
	"verifharness/eng"
	u "verifharness/universe"
)

type out struct {
	Prop       string              `json:"prop"`
	Cases      int                 `json:"cases"`
	Ops        int64               `json:"ops"`
	Hashes     map[string]bool     `json:"hashes"`
	Violations []map[string]any    `json:"violations"`
	Samples    [][]string          `json:"samples"`
	Counters   map[string]int64    `json:"counters"`
	Scenarios  map[string][]string `json:"scenarios"`
	WallS      float64             `json:"wall_s"`
}

func try(f func()) (p any) {
	defer func() { p = recover() }()
	f()
	return nil
}

func isRelType(tp reflect.Type) bool {
	return tp.Kind() == reflect.Struct && tp.NumField() > 0 && tp.Field(0).Type == reflect.TypeFor[ecs.RelationMarker]() && tp.Field(0).Name == "RelationMarker"
}

// typeFor returns a distinct reflect type per k. Mixes sizes, pointer-bearing and relation shapes.
func typeFor(k int) reflect.Type {
	i8 := reflect.TypeFor[int8]()
	sel := k % 5
	if relOnly {
		sel = 4
	}
	switch sel {
	case 4: // a relation component: embedded ecs.RelationMarker as first field
		return reflect.StructOf([]reflect.StructField{
			{Name: "RelationMarker", Type: reflect.TypeFor[ecs.RelationMarker](), Anonymous: true},
			{Name: "A", Type: reflect.ArrayOf(k+1, i8)}})
	case 0:
		return reflect.ArrayOf(k+1, i8)
	case 1:
		return reflect.ArrayOf(k+1, reflect.TypeFor[int64]())
	case 2:
		return reflect.StructOf([]reflect.StructField{{Name: "P", Type: reflect.TypeFor[*int64]()}, {Name: "A", Type: reflect.ArrayOf(k+1, i8)}})
	default:
		return reflect.StructOf([]reflect.StructField{{Name: "S", Type: reflect.TypeFor[string]()}, {Name: "A", Type: reflect.ArrayOf(k+1, i8)}})
	}
}

// relOnly makes typeFor return relation-shaped types only (every 6th case: all registered types are relations).
var relOnly bool

func main() {
	seed := flag.Uint64("seed", 1, "")
	shard := flag.Int("shard", 0, "")
	nshards := flag.Int("nshards", 1, "")
	cases := flag.Int("cases", 40, "")
	outPath := flag.String("out", "", "")
	flag.String("progress", "", "")
	maxComps := flag.Int("maxcomps", 256, "")
	only := flag.Int("only", -1, "")
	flag.Parse()
	MAX := *maxComps

	res := out{Prop: "C18", Hashes: map[string]bool{}, Counters: map[string]int64{}, Scenarios: map[string][]string{}}
	t0 := time.Now()
	cnt := res.Counters
	if *shard == 0 && *only < 0 {
		for _, sc := range eng.Scenarios {
			for _, pr := range sc.Props {
				if pr == "C18" {
					var msgs []string
					func() {
						defer func() {
							if p := recover(); p != nil {
								msgs = append(msgs, fmt.Sprintf("scenario panicked: %v", p))
							}
						}()
						msgs = sc.Run()
					}()
					if msgs == nil {
						msgs = []string{}
					}
					res.Scenarios[sc.Name] = msgs
				}
			}
		}
	}
	for c := *shard; c < *cases; c += *nshards {
		if *only >= 0 && c != *only {
			continue
		}
		r := eng.NewRng(*seed*104729 + uint64(c))
		var msgs []string
		bad := func(f string, a ...any) {
			if len(msgs) < 10 {
				msgs = append(msgs, fmt.Sprintf(f, a...))
			}
		}
		// number of types registered in this case: enumerated over 0..MAX by case index, plus random
		n := c % (MAX + 1)
		if c >= MAX+1 {
			n = r.Intn(MAX + 1)
		}
		relOnly = c%6 == 5
		if relOnly && c < 4*(MAX+1) {
			n = MAX - (c/6)%3 // around the maximum: MAX, MAX-1, MAX-2 relation components on one entity
		}
		desc := []string{fmt.Sprintf("max=%d register %d types then probe (relation types only: %v)", MAX, n, relOnly)}
		func() {
			// a panic escaping a valid call (e.g. from a query over a half-built archetype) is a violation, not a crash
			defer func() {
				if p := recover(); p != nil {
					bad("a valid call panicked: %v", p)
				}
			}()
			w := ecs.NewWorld([][]int{nil, {1}, {4, 2}}[r.Intn(3)]...)
			perm := r.Perm(MAX + 40)
			var tps []reflect.Type
			var ids []ecs.ID
			seen := map[uint8]int{}
			// universe types take part, registered through the generic path at random positions
			univAt := map[int]int{}
			if n >= 8 && !relOnly {
				for _, c := range []int{u.IP8, u.IR1, u.IStr, u.IZ0} {
					univAt[r.Intn(n)] = c
				}
			}
			for i := 0; i < n; i++ {
				var id ecs.ID
				var tp reflect.Type
				if uc, ok := univAt[i]; ok {
					tp = u.Types[uc].RT
					id = u.Types[uc].RegisterID(w)
				} else {
					tp = typeFor(perm[i])
					id = ecs.TypeID(w, tp)
				}
				cnt["registrations"]++
				if j, dup := seen[id.Index()]; dup {
					bad("types %v and %v share ID %d", tps[j], tp, id.Index())
				}
				seen[id.Index()] = i
				tps = append(tps, tp)
				ids = append(ids, id)
				// earlier types keep their IDs (sampled)
				for k := 0; k < 3 && i > 0; k++ {
					j := r.Intn(i + 1)
					if again := ecs.TypeID(w, tps[j]); again != ids[j] {
						bad("type %v changed its ID from %d to %d after %d registrations", tps[j], ids[j].Index(), again.Index(), i+1)
					}
				}
			}
			checkInfo := func(when string) {
				for i, id := range ids {
					info, ok := ecs.ComponentInfo(w, id)
					if !ok || info.Type != tps[i] || info.ID != id || info.IsRelation != isRelType(tps[i]) {
						bad("%s: ComponentInfo(%d) = %+v ok=%v, registered type %v (relation=%v)", when, id.Index(), info, ok, tps[i], isRelType(tps[i]))
						return
					}
				}
			}
			all := ecs.ComponentIDs(w)
			if len(all) != n {
				bad("ComponentIDs() lists %d IDs after %d registrations", len(all), n)
			}
			for i, id := range ids {
				info, ok := ecs.ComponentInfo(w, id)
				if !ok || info.Type != tps[i] || info.ID != id {
					bad("ComponentInfo(%d) = %+v ok=%v, registered type %v", id.Index(), info, ok, tps[i])
				}
				if again := ecs.TypeID(w, tps[i]); again != id {
					bad("type %v maps to ID %d, later to %d", tps[i], id.Index(), again.Index())
				}
				cnt["id-stability-checks"]++
			}
			// every registered type is usable
			U := w.Unsafe()
			use := func(sel []ecs.ID, what string) {
				var e ecs.Entity
				var rels []ecs.Relation
				for _, id := range sel {
					if info, ok := ecs.ComponentInfo(w, id); ok && isRelType(info.Type) {
						rels = append(rels, ecs.RelID(id, ecs.Entity{}))
					}
				}
				if p := try(func() {
					if len(rels) > 0 {
						e = U.NewEntityRel(sel, rels...)
					} else {
						e = U.NewEntity(sel...)
					}
				}); p != nil {
					bad("%s: creating an entity with %d of %d registered types panicked: %v", what, len(sel), n, p)
					return
				}
				cnt["entities-with-high-ids"]++
				for _, id := range sel {
					if !U.Has(e, id) {
						bad("%s: entity lacks component %d", what, id.Index())
						break
					}
				}
				q := ecs.NewUnsafeFilter(w, sel...).Query()
				found := false
				for q.Next() {
					if q.Entity() == e {
						found = true
					}
					for _, id := range sel[:min(len(sel), 3)] {
						if q.Get(id) != U.Get(e, id) && q.Entity() == e {
							bad("%s: query pointer differs from random access for component %d", what, id.Index())
						}
					}
				}
				if !found {
					bad("%s: query over %d components does not find the entity", what, len(sel))
				}
				ex := ecs.NewUnsafeFilter(w, sel...).Exclusive().Query()
				k := 0
				for ex.Next() {
					if ex.Entity() == e {
						k++
					}
				}
				if k != 1 {
					bad("%s: exclusive query finds the entity %d times", what, k)
				}
				// without the last ID the entity must be excluded
				wq := ecs.NewUnsafeFilter(w).Without(sel[len(sel)-1]).Query()
				for wq.Next() {
					if wq.Entity() == e {
						bad("%s: Without(%d) query still visits the entity", what, sel[len(sel)-1].Index())
					}
				}
				// a second entity with the same components and another target for every relation lives in another table
				if len(rels) > 0 {
					tgt := w.NewEntity()
					rels2 := make([]ecs.Relation, len(rels))
					k := 0
					var relIDs []ecs.ID
					for _, id := range sel {
						if info, ok := ecs.ComponentInfo(w, id); ok && isRelType(info.Type) {
							rels2[k] = ecs.RelID(id, tgt)
							relIDs = append(relIDs, id)
							k++
						}
					}
					var e2 ecs.Entity
					if p := try(func() { e2 = U.NewEntityRel(sel, rels2...) }); p != nil {
						bad("%s: creating a second entity with %d relation targets panicked: %v", what, len(rels2), p)
						return
					}
					cnt["entities-with-all-relation-targets-set"]++
					for _, id := range []ecs.ID{relIDs[0], relIDs[len(relIDs)-1]} {
						if t := U.GetRelation(e2, id); t != tgt {
							bad("%s: relation %d of the second entity has target %v, want %v (%d relation components)", what, id.Index(), t, tgt, len(relIDs))
						}
						if t := U.GetRelation(e, id); !t.IsZero() {
							bad("%s: relation %d of the first entity has target %v, want the zero entity", what, id.Index(), t)
						}
					}
					qr := ecs.NewUnsafeFilter(w, sel...).Query(ecs.RelID(relIDs[len(relIDs)-1], tgt))
					var got []ecs.Entity
					for qr.Next() {
						got = append(got, qr.Entity())
					}
					if len(got) != 1 || got[0] != e2 {
						bad("%s: query by relation target finds %v, want [%v]", what, got, e2)
					}
					w.RemoveEntity(e2)
					w.RemoveEntity(tgt)
				}
				if p := try(func() { U.Remove(e, sel[len(sel)-1]) }); p != nil {
					bad("%s: removing component %d panicked: %v", what, sel[len(sel)-1].Index(), p)
				} else if len(sel) > 1 && !U.Has(e, sel[0]) {
					bad("%s: entity lost component %d", what, sel[0].Index())
				}
				w.RemoveEntity(e)
			}
			if n > 0 {
				use(ids[n-1:], "last ID")
				use(ids[:1], "first ID")
				// every word boundary that exists
				var bnd []ecs.ID
				for _, b := range []int{0, 63, 64, 127, 128, 191, 192, 255} {
					if b < n {
						bnd = append(bnd, ids[b])
					}
				}
				use(bnd, "word boundaries")
				if c%8 == 0 || n == MAX || n > 96 {
					use(ids, "all IDs")
				}
				if n == MAX {
					for _, id := range ids {
						use([]ecs.ID{id}, "single ID at full registry")
					}
				}
				// random subset
				var sub []ecs.ID
				for _, i := range r.Perm(n)[:min(n, 1+r.Intn(12))] {
					sub = append(sub, ids[i])
				}
				use(sub, "random subset")
			}
			// registering on a locked world panics without consuming an ID
			if n < MAX {
				q := ecs.NewFilter0(w).Query()
				newTp := typeFor(perm[MAX+1])
				if try(func() { ecs.TypeID(w, newTp) }) == nil {
					bad("registering a new component type on a locked world did not panic")
				}
				cnt["locked-registrations"]++
				if len(ecs.ComponentIDs(w)) != n {
					bad("rejected registration on a locked world changed the number of IDs to %d", len(ecs.ComponentIDs(w)))
				}
				checkInfo("after the rejected registration on a locked world")
				// existing types are still resolvable while locked
				if n > 0 {
					if p := try(func() {
						if ecs.TypeID(w, tps[0]) != ids[0] {
							bad("existing type resolves differently on a locked world")
						}
					}); p != nil {
						bad("resolving an existing type on a locked world panicked: %v", p)
					}
				}
				q.Close()
				if n > 0 {
					// the most recently registered type must still be usable in a new archetype
					use(ids[n-1:], "last registered type after the rejected registration")
					if n > 1 {
						use(ids[n-2:], "last two registered types after the rejected registration")
					}
				}
				var id ecs.ID
				if p := try(func() { id = ecs.TypeID(w, newTp) }); p != nil {
					bad("registering the type after unlocking panicked: %v", p)
				} else if int(id.Index()) != n {
					bad("type rejected on the locked world got ID %d afterwards, expected the next free ID %d", id.Index(), n)
				} else {
					tps = append(tps, newTp)
					ids = append(ids, id)
					use([]ecs.ID{id}, "type registered after the rejected attempt")
				}
			}
			// fill up to the maximum: the maximum stays reachable, beyond it registration panics
			for i := len(ids); i < MAX; i++ {
				tp := typeFor(perm[i] + 1000)
				var id ecs.ID
				if p := try(func() { id = ecs.TypeID(w, tp) }); p != nil {
					bad("registering type %d of %d panicked: %v", i+1, MAX, p)
					break
				}
				if int(id.Index()) != i {
					bad("registration %d got ID %d", i+1, id.Index())
				}
				tps = append(tps, tp)
				ids = append(ids, id)
			}
			if len(ids) == MAX {
				use(ids[MAX-1:], "last ID at the maximum")
				over := typeFor(5000 + c)
				if try(func() { ecs.TypeID(w, over) }) == nil {
					bad("registering type %d (beyond the maximum %d) did not panic", MAX+1, MAX)
				}
				cnt["over-max-registrations"]++
				if len(ecs.ComponentIDs(w)) != MAX {
					bad("rejected over-max registration changed the number of IDs to %d", len(ecs.ComponentIDs(w)))
				}
				for k := 0; k < 8; k++ {
					j := r.Intn(MAX)
					if ecs.TypeID(w, tps[j]) != ids[j] {
						bad("mapping of type %v changed after the rejected over-max registration", tps[j])
					}
				}
				checkInfo("after the rejected over-max registration")
				use(ids[MAX-1:], "last ID after the rejected over-max registration")
			}
		}()
		msgs = append(msgs, resources(r, cnt)...)
		res.Cases++
		res.Hashes[fmt.Sprintf("n=%d/%x/%d", n, *seed, c)] = n > 0
		if len(msgs) > 0 {
			res.Violations = append(res.Violations, map[string]any{"case": c, "seed": *seed, "config": fmt.Sprint("n=", n), "violations": msgs, "ops": desc})
			if len(res.Violations) >= 3 {
				break
			}
		} else if len(res.Samples) < 2 {
			res.Samples = append(res.Samples, desc)
		}
	}
	res.WallS = time.Since(t0).Seconds()
	b, _ := json.Marshal(res)
	if *outPath != "" {
		os.WriteFile(*outPath, b, 0o644)
	} else {
		fmt.Println(string(b))
	}
	for _, v := range res.Violations {
		fmt.Println("VIOLATION-CASE", v["case"], v["violations"])
	}
}

// resources checks Add/Get/Has/Remove against a map model, through the generic and the ID-based API.
func resources(r *eng.Rng, cnt map[string]int64) []string {
	var msgs []string
	w := ecs.NewWorld()
	model := map[int]int64{}
	resID := map[int]ecs.ResID{}
	for step := 0; step < 120; step++ {
		c := r.Intn(u.N)
		t := &u.Types[c]
		cnt["resource-ops"]++
		_, has := model[c]
		switch r.Intn(4) {
		case 0: // add
			v := int64(1000 + step)
			generic := r.Chance(50)
			p := try(func() {
				if generic {
					t.AddRes(w, v)
				} else {
					w.Resources().Add(t.ResID(w), t.NewValue(v))
				}
			})
			if has && p == nil {
				msgs = append(msgs, "adding resource "+t.Name+" twice did not panic")
			}
			if !has {
				if p != nil {
					msgs = append(msgs, fmt.Sprintf("adding resource %s panicked: %v", t.Name, p))
				} else {
					model[c] = t.Canon(v)
				}
			}
		case 1: // remove
			generic := r.Chance(50)
			p := try(func() {
				if generic {
					t.RemoveRes(w)
				} else {
					w.Resources().Remove(t.ResID(w))
				}
			})
			if !has && p == nil {
				msgs = append(msgs, "removing missing resource "+t.Name+" did not panic")
			}
			if has {
				if p != nil {
					msgs = append(msgs, fmt.Sprintf("removing resource %s panicked: %v", t.Name, p))
				} else {
					delete(model, c)
				}
			}
		case 2: // reset
			if r.Chance(10) {
				w.Reset()
				model = map[int]int64{}
			}
		}
		// resource IDs are stable and distinct
		id := t.ResID(w)
		if old, ok := resID[c]; ok && old != id {
			msgs = append(msgs, fmt.Sprintf("resource type %s changed its ID from %d to %d", t.Name, old.Index(), id.Index()))
		}
		resID[c] = id
		for c2, id2 := range resID {
			if c2 != c && id2 == id {
				msgs = append(msgs, fmt.Sprintf("resource types %s and %s share ID %d", t.Name, u.Types[c2].Name, id.Index()))
			}
		}
		if tp, ok := ecs.ResourceType(w, id); !ok || tp != t.RT {
			msgs = append(msgs, fmt.Sprintf("ResourceType(%d)=%v ok=%v, expected %v", id.Index(), tp, ok, t.RT))
		}
		// whole-state comparison
		for c2 := 0; c2 < u.N; c2++ {
			t2 := &u.Types[c2]
			want, has2 := model[c2]
			if t2.HasRes(w) != has2 || w.Resources().Has(t2.ResID(w)) != has2 {
				msgs = append(msgs, fmt.Sprintf("resource %s Has=%v, model %v", t2.Name, t2.HasRes(w), has2))
				continue
			}
			v, ok, present := t2.GetRes(w)
			if present != has2 || (has2 && (!ok || v != want)) {
				msgs = append(msgs, fmt.Sprintf("resource %s reads %d (present=%v), model %d (present=%v)", t2.Name, v, present, want, has2))
			}
			if g := w.Resources().Get(t2.ResID(w)); (g != nil) != has2 {
				msgs = append(msgs, fmt.Sprintf("Resources().Get(%s) nil=%v, model present=%v", t2.Name, g == nil, has2))
			}
		}
		if len(msgs) > 6 {
			break
		}
	}
	if n := len(ecs.ResourceIDs(w)); n != u.N {
		msgs = append(msgs, fmt.Sprintf("ResourceIDs() lists %d, %d resource types were resolved", n, u.N))
	}
	return msgs
}
