// serworker (C17): entity dump/load round trips against worlds produced by churn histories,
// and the entity codecs (JSON / binary) over boundary and random (id, generation) pairs.
package main

import (
	"bytes"
	"encoding/gob"
	"encoding/json"
	"flag"
	"fmt"
	"os"
	"time"

	"github.com/mlange-42/ark/ecs"
	"verifharness/eng"
)

type out struct {
	Prop       string              `json:"prop"`
	Cases      int                 `json:"cases"`
	Ops        int64               `json:"ops"`
	Hashes     map[string]bool     `json:"hashes"`
	Violations []map[string]any    `json:"violations"`
	Samples    [][]string          `json:"samples"`
	Counters   map[string]int64    `json:"counters"`
	Scenarios  map[string][]string `json:"scenarios"`
	WallS      float64             `json:"wall_s"`
}

func try(f func()) (p any) {
	defer func() { p = recover() }()
	f()
	return nil
}

func mkEntity(id, gen uint32) (ecs.Entity, error) {
	var e ecs.Entity
	err := e.UnmarshalJSON([]byte(fmt.Sprintf("[%d,%d]", id, gen)))
	return e, err
}

func main() {
	seed := flag.Uint64("seed", 1, "")
	shard := flag.Int("shard", 0, "")
	nshards := flag.Int("nshards", 1, "")
	cases := flag.Int("cases", 50, "")
	pairs := flag.Int("pairs", 20000, "random codec pairs (shard 0)")
	outPath := flag.String("out", "", "")
	flag.String("progress", "", "")
	maxComps := flag.Int("maxcomps", 256, "")
	only := flag.Int("only", -1, "")
	scen := flag.Bool("scenarios", false, "run the directed scenarios of C17 (shard 0)")
	flag.Parse()

	res := out{Prop: "C17", Hashes: map[string]bool{}, Counters: map[string]int64{}, Scenarios: map[string][]string{}}
	t0 := time.Now()
	if *scen && *shard == 0 && *only < 0 {
		// directed scenarios of the dump/load property (pinned triggers of findings)
		for _, sc := range eng.Scenarios {
			for _, pr := range sc.Props {
				if pr != "C17" {
					continue
				}
				var msgs []string
				func() {
					defer func() {
						if p := recover(); p != nil {
							msgs = append(msgs, fmt.Sprintf("scenario panicked: %v", p))
						}
					}()
					msgs = sc.Run()
				}()
				if msgs == nil {
					msgs = []string{}
				}
				res.Scenarios[sc.Name] = msgs
				break
			}
		}
	}
	pf := eng.Profiles["churn"]()
	o := &eng.Opts{MaxComponents: *maxComps, Avoid: map[string]bool{}}
	for c := *shard; c < *cases; c += *nshards {
		if *only >= 0 && c != *only {
			continue
		}
		r := eng.NewRng(*seed*7919 + uint64(c))
		p := pf
		p.MaxAlive = []int{1, 3, 8, 24, 60}[r.Intn(5)]
		d, m, _ := eng.BuildFrozen(*seed, c, &p, o, 40+r.Intn(360))
		res.Cases++
		var msgs []string
		var desc []string
		for _, v := range d.Viol {
			msgs = append(msgs, v.String())
		}
		func() {
			defer func() {
				if p := recover(); p != nil {
					msgs = append(msgs, fmt.Sprintf("a valid call panicked: %v", p))
				}
			}()
			dump := d.U.DumpEntities()
			variant := r.Intn(4)
			// checkpoint mode: the dump is a snapshot - the source world keeps changing (removals, recycled IDs)
			// before the dump is loaded, and the loaded world must still reproduce the state at dump time
			checkpoint := r.Chance(40)
			type snap struct {
				h     ecs.Entity
				alive bool
			}
			var atDump []snap
			for i := m.Epoch0; i < len(m.Ents); i++ {
				if !d.H[i].IsZero() {
					atDump = append(atDump, snap{d.H[i], m.Ents[i].Alive})
				}
			}
			usedAtDump := m.NAlive
			if checkpoint {
				res.Counters["checkpoint-dumps"]++
				var extra []ecs.Entity
				for k := 0; k < 3+r.Intn(30); k++ {
					switch r.Intn(3) {
					case 0:
						extra = append(extra, d.W.NewEntity())
					default:
						// remove an entity that was alive at dump time, or one created since
						if len(extra) > 0 && r.Chance(40) {
							j := r.Intn(len(extra))
							d.W.RemoveEntity(extra[j])
							extra = append(extra[:j], extra[j+1:]...)
						} else {
							for tries := 0; tries < 5 && len(atDump) > 0; tries++ {
								s := atDump[r.Intn(len(atDump))]
								if d.W.Alive(s.h) {
									d.W.RemoveEntity(s.h)
									break
								}
							}
						}
					}
					res.Counters["source-ops-after-dump"]++
				}
			}
			desc = append(desc, d.Cfg.String())
			// the dump may go through JSON
			if variant%2 == 1 {
				b, err := json.Marshal(dump)
				if variant == 3 {
					// JSON may be formatted: whitespace between the tokens of an entity is as good as none
					b, err = json.MarshalIndent(dump, " ", "\t")
					res.Counters["dumps-through-indented-json"]++
				}
				if err != nil {
					msgs = append(msgs, "json.Marshal(EntityDump): "+err.Error())
				}
				var d2 ecs.EntityDump
				if err := json.Unmarshal(b, &d2); err != nil {
					msgs = append(msgs, "json.Unmarshal(EntityDump): "+err.Error())
				}
				dump = d2
				res.Counters["dumps-through-json"]++
			}
			// target world: fresh or reset
			caps := [][]int{nil, {1}, {2}, {64}, {1024, 8}}[r.Intn(5)]
			w2 := ecs.NewWorld(caps...)
			var tmp []ecs.Entity
			if variant >= 2 {
				// a world with a history, then Reset
				for i := 0; i < 5+r.Intn(40); i++ {
					tmp = append(tmp, w2.NewEntity())
				}
				for i := 0; i < len(tmp); i += 2 {
					w2.RemoveEntity(tmp[i])
				}
				w2.Reset()
				res.Counters["loads-into-reset-world"]++
			} else {
				res.Counters["loads-into-fresh-world"]++
			}
			if r.Chance(25) {
				// a load attempt while the (still empty) target world is locked is rejected and leaves it as it was: the
				// real load below must work as if the attempt had never been made
				q := ecs.NewFilter0(w2).Query()
				p := try(func() { w2.Unsafe().LoadEntities(&dump) })
				q.Close()
				res.Counters["loads-rejected-on-a-locked-world"]++
				if p == nil {
					msgs = append(msgs, "LoadEntities on a locked world returned normally")
				}
				if n := w2.Stats().Entities.Used; n != 0 {
					msgs = append(msgs, fmt.Sprintf("after a rejected LoadEntities (world locked) the empty target world reports %d alive entities", n))
				}
			}
			if p := try(func() { w2.Unsafe().LoadEntities(&dump) }); p != nil {
				msgs = append(msgs, fmt.Sprintf("LoadEntities panicked: %v", p))
			} else {
				// alive/dead status of every handle issued in the source world's current epoch, as of dump time
				for _, s := range atDump {
					res.Counters["handles-compared"]++
					if w2.Alive(s.h) != s.alive || (!checkpoint && d.W.Alive(s.h) != s.alive) {
						msgs = append(msgs, fmt.Sprintf("handle %v: source Alive=%v, loaded Alive=%v, at dump time %v (checkpoint=%v)", s.h, d.W.Alive(s.h), w2.Alive(s.h), s.alive, checkpoint))
					}
				}
				// handles the target world issued before its own Reset stay dead after the load (IDs the dump does not use)
				for _, h := range tmp {
					if int(h.ID()) >= len(dump.Entities) && w2.Alive(h) {
						msgs = append(msgs, fmt.Sprintf("handle %v, removed by the target world's Reset before the load, is reported alive after LoadEntities (dump has %d entries)", h, len(dump.Entities)))
						break
					}
				}
				// handles the source world issued before its last Reset whose IDs lie behind the dump but inside the loaded
				// world's pool (Stats().Entities.Capacity) are dead in the source and must be dead in the loaded world
				// (IDs the current epoch re-used are value-identical to newer handles and not compared; IDs behind the
				// pool's capacity are known finding K1)
				capLoaded := w2.Stats().Entities.Capacity
				for i := 0; i < m.Epoch0 && i < len(d.H); i++ {
					h := d.H[i]
					if h.IsZero() || int(h.ID()) < len(dump.Entities) || int(h.ID()) >= capLoaded {
						continue
					}
					res.Counters["pre-reset-handles-inside-loaded-pool"]++
					if w2.Alive(h) {
						msgs = append(msgs, fmt.Sprintf("handle %v, removed by the source world's Reset before the dump (dump has %d entries, loaded pool capacity %d), is reported alive by the loaded world", h, len(dump.Entities), capLoaded))
						break
					}
				}
				// the reserved zero and wildcard entities are not alive in a loaded world either
				var wild ecs.Entity
				_ = wild.UnmarshalBinary([]byte{0, 0, 0, 1, 0, 0, 0, 0})
				for _, h := range []ecs.Entity{{}, wild} {
					if w2.Alive(h) != d.W.Alive(h) || w2.Alive(h) {
						msgs = append(msgs, fmt.Sprintf("reserved entity %v: source Alive=%v, loaded Alive=%v, want false", h, d.W.Alive(h), w2.Alive(h)))
					}
				}
				p1, p2 := try(func() { d.W.RemoveEntity(ecs.Entity{}) }), try(func() { w2.RemoveEntity(ecs.Entity{}) })
				if p1 == nil || p2 == nil || fmt.Sprint(p1) != fmt.Sprint(p2) {
					msgs = append(msgs, fmt.Sprintf("RemoveEntity(zero entity): source panic %v, loaded world panic %v", p1, p2))
				}
				if b := w2.Stats().Entities; b.Used != usedAtDump {
					msgs = append(msgs, fmt.Sprintf("loaded world reports %d alive entities, %d were alive at dump time", b.Used, usedAtDump))
				}
				if n := func() int {
					q := ecs.NewFilter0(w2).Query()
					k := 0
					for q.Next() {
						k++
					}
					return k
				}(); n != usedAtDump {
					msgs = append(msgs, fmt.Sprintf("a query over the loaded world visits %d entities, %d were alive at dump time", n, usedAtDump))
				}
				if !checkpoint {
					if a, b := d.W.Stats().Entities, w2.Stats().Entities; a.Used != b.Used || a.Recycled != b.Recycled || a.Total != b.Total {
						msgs = append(msgs, fmt.Sprintf("entity statistics differ after load: source %+v loaded %+v", a, b))
					}
				}
				// a sibling world loaded from the same dump (capacity 1: the dump is at least as large as its pool) takes part in
				// the lockstep operations: worlds restored from one dump share nothing
				w5 := ecs.NewWorld(1)
				sibling := try(func() { w5.Unsafe().LoadEntities(&dump) }) == nil
				if !sibling {
					msgs = append(msgs, "loading the dump into a second world panicked")
				}
				// lockstep creations and removals
				n := 1 + r.Intn(200)
				var created, removedLockstep []ecs.Entity
				if checkpoint {
					n = 0 // the source has moved on; lockstep comparison applies to immediate loads only
				}
				for i := 0; i < n && len(msgs) == 0; i++ {
					switch r.Intn(6) {
					case 0: // batch creation
						k := 1 + r.Intn(6)
						var a, b []ecs.Entity
						d.W.NewEntities(k, func(e ecs.Entity) { a = append(a, e) })
						w2.NewEntities(k, func(e ecs.Entity) { b = append(b, e) })
						for j := range a {
							if j >= len(b) || a[j] != b[j] {
								msgs = append(msgs, fmt.Sprintf("batch creation %d after load: source %v, loaded %v", i, a, b))
								break
							}
						}
						if sibling {
							var c []ecs.Entity
							w5.NewEntities(k, func(e ecs.Entity) { c = append(c, e) })
							if fmt.Sprint(c) != fmt.Sprint(b) {
								msgs = append(msgs, fmt.Sprintf("batch creation %d: two worlds loaded from the same dump return %v and %v", i, b, c))
							}
						}
						created = append(created, a...)
						res.Counters["lockstep-creations"] += int64(k)
					case 1: // removal in both
						if len(created) > 0 {
							j := r.Intn(len(created))
							e := created[j]
							created = append(created[:j], created[j+1:]...)
							removedLockstep = append(removedLockstep, e)
							p1 := try(func() { d.W.RemoveEntity(e) })
							p2 := try(func() { w2.RemoveEntity(e) })
							if p1 != nil || p2 != nil {
								msgs = append(msgs, fmt.Sprintf("lockstep removal of %v: source panic %v, loaded panic %v", e, p1, p2))
							}
							if sibling {
								if p3 := try(func() { w5.RemoveEntity(e) }); p3 != nil {
									msgs = append(msgs, fmt.Sprintf("lockstep removal of %v panics in the second world loaded from the same dump: %v", e, p3))
								}
							}
							res.Counters["lockstep-removals"]++
						}
					default:
						a := d.W.NewEntity()
						b := w2.NewEntity()
						if a != b {
							msgs = append(msgs, fmt.Sprintf("creation %d after load: source returns %v, loaded world %v", i, a, b))
						}
						if sibling {
							if c := w5.NewEntity(); c != b {
								msgs = append(msgs, fmt.Sprintf("creation %d: two worlds loaded from the same dump return %v and %v", i, b, c))
							}
						}
						created = append(created, a)
						res.Counters["lockstep-creations"]++
					}
				}
				for _, e := range created {
					if !w2.Alive(e) || !d.W.Alive(e) {
						msgs = append(msgs, fmt.Sprintf("entity %v created after load is not alive in both worlds", e))
						break
					}
				}
				// handles the target world issued before its own Reset stay dead while the loaded world grows (IDs not in use)
				if len(msgs) == 0 {
					inUse := 2 + w2.Stats().Entities.Total
					for _, h := range tmp {
						if int(h.ID()) >= inUse && w2.Alive(h) {
							msgs = append(msgs, fmt.Sprintf("handle %v, removed by the target world's Reset before the load, is reported alive after %d further creations (pool holds %d IDs)", h, len(created), inUse))
							break
						}
					}
				}
				// the dump is the caller's: loading it and working with the loaded world leaves it usable - a second world
				// loaded from it now reproduces the statuses as of dump time, too
				if len(msgs) == 0 {
					w4 := ecs.NewWorld(caps...)
					if p := try(func() { w4.Unsafe().LoadEntities(&dump) }); p != nil {
						msgs = append(msgs, fmt.Sprintf("loading the same dump a second time panicked: %v", p))
					} else {
						res.Counters["second-loads-of-a-dump"]++
						for _, s := range atDump {
							if w4.Alive(s.h) != s.alive {
								msgs = append(msgs, fmt.Sprintf("second world loaded from the same dump: handle %v Alive=%v, at dump time %v", s.h, w4.Alive(s.h), s.alive))
								break
							}
						}
						if b := w4.Stats().Entities; b.Used != usedAtDump {
							msgs = append(msgs, fmt.Sprintf("second world loaded from the same dump reports %d alive entities, %d were alive at dump time", b.Used, usedAtDump))
						}
					}
				}
				// liveness of every handle known so far (as of dump time, removed in lockstep) agrees between the worlds,
				// and the loaded world rejects the dead ones like any world does (C10)
				if !checkpoint && len(msgs) == 0 {
					known := append([]ecs.Entity{}, removedLockstep...)
					for _, s := range atDump {
						known = append(known, s.h)
					}
					usedNow := w2.Stats().Entities.Used
					for _, h := range known {
						res.Counters["handles-compared"]++
						if a, b := d.W.Alive(h), w2.Alive(h); a != b {
							msgs = append(msgs, fmt.Sprintf("after lockstep operations handle %v: source Alive=%v, loaded Alive=%v", h, a, b))
							break
						}
						if d.W.Alive(h) {
							continue
						}
						res.Counters["stale-handles-offered-to-loaded-world"]++
						for name, call := range map[string]func(){
							"RemoveEntity": func() { w2.RemoveEntity(h) },
							"CopyEntity":   func() { w2.CopyEntity(h) },
							"Unsafe.IDs":   func() { w2.Unsafe().IDs(h) },
							"Unsafe.Add":   func() { w2.Unsafe().Add(h, ecs.ComponentID[serComp](w2)) },
						} {
							if try(call) == nil {
								msgs = append(msgs, fmt.Sprintf("loaded world: %s(%v) with a dead handle did not panic", name, h))
							}
						}
						if len(msgs) > 0 {
							break
						}
					}
					if n := w2.Stats().Entities.Used; n != usedNow {
						msgs = append(msgs, fmt.Sprintf("rejected calls changed the loaded world's alive count from %d to %d", usedNow, n))
					}
				}
				// a loaded world is a world like any other: Reset returns it to a reusable empty state (C16)
				if len(msgs) == 0 {
					res.Counters["resets-of-loaded-worlds"]++
					msgs = append(msgs, afterReset(w2, "loaded world")...)
					if sibling {
						msgs = append(msgs, afterReset(w5, "second world loaded from the same dump")...)
					}
				}
			}
			// loading into a non-empty world must be rejected
			w3 := ecs.NewWorld()
			w3.NewEntity()
			if try(func() { w3.Unsafe().LoadEntities(&dump) }) == nil {
				msgs = append(msgs, "LoadEntities into a world with entities did not panic")
			}
			desc = append(desc, fmt.Sprintf("alive=%d issued=%d pool=%d next=%d available=%d variant=%d checkpoint=%v", usedAtDump, len(atDump), len(dump.Entities), dump.Next, dump.Available, variant, checkpoint))
		}()
		res.Hashes[fmt.Sprintf("%x-%d", *seed, c)] = len(m.Ents) >= 5
		if len(msgs) > 0 {
			res.Violations = append(res.Violations, map[string]any{"case": c, "seed": *seed, "config": d.Cfg.String(), "violations": msgs[:min(len(msgs), 10)], "ops": desc})
			if len(res.Violations) >= 3 {
				break
			}
		} else if len(res.Samples) < 2 {
			res.Samples = append(res.Samples, desc)
		}
	}
	if *shard == 0 && *only < 0 {
		if msgs := codecs(*seed, *pairs, res.Counters); len(msgs) > 0 {
			res.Violations = append(res.Violations, map[string]any{"case": -1, "seed": *seed, "config": "codecs", "violations": msgs[:min(len(msgs), 10)], "ops": []string{"entity codecs"}})
		}
	}
	res.WallS = time.Since(t0).Seconds()
	b, _ := json.Marshal(res)
	if *outPath != "" {
		os.WriteFile(*outPath, b, 0o644)
	} else {
		fmt.Println(string(b))
	}
	for _, v := range res.Violations {
		fmt.Println("VIOLATION-CASE", v["case"], v["violations"])
	}
}

type serComp struct{ V int64 }

func codecs(seed uint64, pairs int, cnt map[string]int64) []string {
	var msgs []string
	bound := []uint32{0, 1, 2, 3, 255, 256, 65535, 65536, 1<<31 - 1, 1 << 31, 1<<32 - 1}
	check := func(id, gen uint32) {
		if len(msgs) > 20 {
			return
		}
		cnt["codec-pairs"]++
		e, err := mkEntity(id, gen)
		if err != nil {
			msgs = append(msgs, fmt.Sprintf("UnmarshalJSON([%d,%d]): %v", id, gen, err))
			return
		}
		if e.ID() != id || e.Gen() != gen {
			msgs = append(msgs, fmt.Sprintf("UnmarshalJSON([%d,%d]) gives id=%d gen=%d", id, gen, e.ID(), e.Gen()))
		}
		js, err := e.MarshalJSON()
		var e2 ecs.Entity
		if err != nil || e2.UnmarshalJSON(js) != nil || e2 != e {
			msgs = append(msgs, fmt.Sprintf("JSON round trip of (%d,%d) gives %v (%s, err %v)", id, gen, e2, js, err))
		}
		// through encoding/json inside a struct
		type wrap struct{ E ecs.Entity }
		b, err := json.Marshal(wrap{e})
		var wr wrap
		if err != nil || json.Unmarshal(b, &wr) != nil || wr.E != e {
			msgs = append(msgs, fmt.Sprintf("encoding/json round trip of (%d,%d) gives %v", id, gen, wr.E))
		}
		// ... and in every position in which encoding/json meets a handle: addressable or not, by value, by pointer,
		// behind an interface, as element, as map value
		type nest struct {
			In  wrap
			Ptr *ecs.Entity
			L   []ecs.Entity
			A   [2]ecs.Entity
			M   map[string]ecs.Entity
		}
		shapes := []struct {
			name string
			enc  any
			dec  func([]byte) (ecs.Entity, error)
		}{
			{"Entity value", e, func(b []byte) (x ecs.Entity, err error) { err = json.Unmarshal(b, &x); return }},
			{"*Entity", &e, func(b []byte) (x ecs.Entity, err error) { err = json.Unmarshal(b, &x); return }},
			{"[]Entity", []ecs.Entity{e}, func(b []byte) (ecs.Entity, error) {
				var x []ecs.Entity
				err := json.Unmarshal(b, &x)
				if err != nil || len(x) != 1 {
					return ecs.Entity{}, fmt.Errorf("%v len %d", err, len(x))
				}
				return x[0], nil
			}},
			{"[1]Entity value", [1]ecs.Entity{e}, func(b []byte) (ecs.Entity, error) {
				var x [1]ecs.Entity
				err := json.Unmarshal(b, &x)
				return x[0], err
			}},
			{"map[string]Entity", map[string]ecs.Entity{"k": e}, func(b []byte) (ecs.Entity, error) {
				var x map[string]ecs.Entity
				err := json.Unmarshal(b, &x)
				return x["k"], err
			}},
			{"*struct", &wrap{e}, func(b []byte) (ecs.Entity, error) {
				var x wrap
				err := json.Unmarshal(b, &x)
				return x.E, err
			}},
			{"any(Entity)", any(e), func(b []byte) (x ecs.Entity, err error) { err = json.Unmarshal(b, &x); return }},
		}
		for _, sh := range shapes {
			cnt["json-shapes"]++
			b, err := json.Marshal(sh.enc)
			if err != nil {
				msgs = append(msgs, fmt.Sprintf("encoding/json of (%d,%d) as %s: %v", id, gen, sh.name, err))
				continue
			}
			got, err := sh.dec(b)
			if err != nil || got != e {
				msgs = append(msgs, fmt.Sprintf("encoding/json round trip of (%d,%d) as %s gives %v (%s, err %v)", id, gen, sh.name, got, b, err))
			}
		}
		nv := nest{In: wrap{e}, Ptr: &e, L: []ecs.Entity{e, e}, A: [2]ecs.Entity{e, e}, M: map[string]ecs.Entity{"a": e}}
		for pass, enc := range []any{nv, &nv} {
			cnt["json-shapes"]++
			b, err := json.Marshal(enc)
			var got nest
			if err == nil {
				err = json.Unmarshal(b, &got)
			}
			if err != nil || got.In.E != e || got.Ptr == nil || *got.Ptr != e || len(got.L) != 2 || got.L[1] != e || got.A[1] != e || got.M["a"] != e {
				msgs = append(msgs, fmt.Sprintf("encoding/json round trip of (%d,%d) inside a nested struct (pass %d) fails: %s, err %v", id, gen, pass, b, err))
			}
		}
		// binary encoding through encoding/gob, which uses MarshalBinary / UnmarshalBinary: handles held by value
		// (the documented way of storing them) must be encodable too
		gobShapes := []struct {
			name string
			enc  any
			dec  func(*gob.Decoder) (ecs.Entity, error)
		}{
			{"Entity value", e, func(d *gob.Decoder) (x ecs.Entity, err error) { err = d.Decode(&x); return }},
			{"*Entity", &e, func(d *gob.Decoder) (x ecs.Entity, err error) { err = d.Decode(&x); return }},
			{"struct value", wrap{e}, func(d *gob.Decoder) (ecs.Entity, error) {
				var x wrap
				err := d.Decode(&x)
				return x.E, err
			}},
			{"map[string]Entity", map[string]ecs.Entity{"k": e}, func(d *gob.Decoder) (ecs.Entity, error) {
				var x map[string]ecs.Entity
				err := d.Decode(&x)
				return x["k"], err
			}},
			{"[]Entity", []ecs.Entity{e}, func(d *gob.Decoder) (ecs.Entity, error) {
				var x []ecs.Entity
				err := d.Decode(&x)
				if err != nil || len(x) != 1 {
					return ecs.Entity{}, fmt.Errorf("%v len %d", err, len(x))
				}
				return x[0], nil
			}},
		}
		for _, sh := range gobShapes {
			cnt["gob-shapes"]++
			var buf bytes.Buffer
			if err := gob.NewEncoder(&buf).Encode(sh.enc); err != nil {
				msgs = append(msgs, fmt.Sprintf("encoding/gob of (%d,%d) as %s: %v", id, gen, sh.name, err))
				continue
			}
			got, err := sh.dec(gob.NewDecoder(&buf))
			if err != nil || got != e {
				msgs = append(msgs, fmt.Sprintf("encoding/gob round trip of (%d,%d) as %s gives %v (err %v)", id, gen, sh.name, got, err))
			}
		}
		bin, err := e.MarshalBinary()
		var e3 ecs.Entity
		if err != nil || len(bin) != 8 || e3.UnmarshalBinary(bin) != nil || e3 != e {
			msgs = append(msgs, fmt.Sprintf("binary round trip of (%d,%d) gives %v (len %d, err %v)", id, gen, e3, len(bin), err))
		}
		prefix := []byte{9, 9, 9}
		app, err := e.AppendBinary(prefix)
		var e4 ecs.Entity
		if err != nil || len(app) != 11 || app[0] != 9 || e4.UnmarshalBinary(app[3:]) != nil || e4 != e {
			msgs = append(msgs, fmt.Sprintf("AppendBinary round trip of (%d,%d) gives %v (len %d, err %v)", id, gen, e4, len(app), err))
		}
	}
	// encodings are the caller's: kept ones are not changed by later encodings (of other entities), and scribbling over
	// one does not change what is encoded later
	type kept struct {
		e        ecs.Entity
		bin, app []byte
		js       []byte
	}
	var keep []kept
	flush := func() {
		for pass := 0; pass < 2; pass++ {
			for i := range keep {
				k := &keep[i]
				cnt["kept-encodings-decoded"]++
				var a, b, c ecs.Entity
				if err := a.UnmarshalBinary(k.bin); err != nil || a != k.e {
					msgs = append(msgs, fmt.Sprintf("MarshalBinary of %v, kept while %d other entities were encoded, decodes to %v (err %v)", k.e, len(keep)-1, a, err))
				}
				if err := b.UnmarshalBinary(k.app[len(k.app)-8:]); err != nil || b != k.e || k.app[0] != 7 {
					msgs = append(msgs, fmt.Sprintf("AppendBinary of %v, kept while other entities were encoded, decodes to %v (err %v, prefix %d)", k.e, b, err, k.app[0]))
				}
				if err := c.UnmarshalJSON(k.js); err != nil || c != k.e {
					msgs = append(msgs, fmt.Sprintf("MarshalJSON of %v, kept while other entities were encoded, decodes to %v (err %v)", k.e, c, err))
				}
				if pass == 0 && i%2 == 0 {
					// scribble over the returned slices (including spare capacity), then encode the entity again
					for _, sl := range [][]byte{k.bin[:cap(k.bin)], k.app[:cap(k.app)], k.js[:cap(k.js)]} {
						for j := range sl {
							sl[j] = 0xEE
						}
					}
					k.bin, _ = k.e.MarshalBinary()
					k.app, _ = k.e.AppendBinary(make([]byte, 1, 1+i%12))
					k.app[0] = 7
					k.js, _ = k.e.MarshalJSON()
				}
			}
		}
		keep = keep[:0]
	}
	checkKept := func(id, gen uint32) {
		e, err := mkEntity(id, gen)
		if err != nil || len(msgs) > 20 {
			return
		}
		k := kept{e: e}
		k.bin, _ = e.MarshalBinary()
		k.app, _ = e.AppendBinary(make([]byte, 1, 1+len(keep)%12)) // buffers with and without spare capacity
		k.app[0] = 7
		k.js, _ = e.MarshalJSON()
		keep = append(keep, k)
		if len(keep) == 16 {
			flush()
		}
	}
	for _, a := range bound {
		for _, b := range bound {
			check(a, b)
			checkKept(a, b)
		}
	}
	r := eng.NewRng(seed ^ 0xC17)
	for i := 0; i < pairs; i++ {
		a, b := uint32(r.U64()), uint32(r.U64())
		check(a, b)
		checkKept(a, b)
	}
	flush()
	// malformed binary input: every length 0..64 except 8 must be rejected
	for n := 0; n <= 64; n++ {
		if n == 8 {
			continue
		}
		buf := make([]byte, n)
		for i := range buf {
			buf[i] = byte(r.U64())
		}
		var e ecs.Entity
		cnt["malformed-binary-inputs"]++
		if err := e.UnmarshalBinary(buf); err == nil {
			msgs = append(msgs, fmt.Sprintf("UnmarshalBinary accepted %d bytes", n))
		}
	}
	return msgs
}

type resetRel struct{ ecs.RelationMarker }

// afterReset resets a world that was populated by LoadEntities and checks that it is empty and usable like a new one.
func afterReset(w *ecs.World, what string) (msgs []string) {
	defer func() {
		if p := recover(); p != nil {
			msgs = append(msgs, fmt.Sprintf("%s after Reset: a valid call panicked: %v", what, p))
		}
	}()
	w.Reset()
	if s := w.Stats().Entities; s.Used != 0 || w.IsLocked() {
		msgs = append(msgs, fmt.Sprintf("%s after Reset: %+v, locked=%v", what, s, w.IsLocked()))
	}
	if w.Alive(ecs.Entity{}) {
		msgs = append(msgs, fmt.Sprintf("%s after Reset: the zero entity is reported alive", what))
	}
	rm := ecs.NewMap1[resetRel](w)
	seen := map[ecs.Entity]bool{}
	var es []ecs.Entity
	for i := 0; i < 4; i++ {
		e := w.NewEntity()
		if e.IsZero() || e.ID() < 2 || seen[e] || !w.Alive(e) {
			msgs = append(msgs, fmt.Sprintf("%s after Reset: creation %d returns %v (zero=%v, issued before=%v, alive=%v)", what, i, e, e.IsZero(), seen[e], w.Alive(e)))
		}
		seen[e] = true
		es = append(es, e)
	}
	if w.Alive(ecs.Entity{}) {
		msgs = append(msgs, fmt.Sprintf("%s after Reset and %d creations: the zero entity is reported alive", what, len(es)))
	}
	child := rm.NewEntity(&resetRel{}, ecs.RelIdx(0, es[0]))
	if t := rm.GetRelation(child, 0); t != es[0] {
		msgs = append(msgs, fmt.Sprintf("%s after Reset: a child of the first entity %v has target %v", what, es[0], t))
	}
	f := ecs.NewFilter1[resetRel](w)
	q := f.Query(ecs.RelIdx(0, es[0]))
	if n := q.Count(); n != 1 {
		msgs = append(msgs, fmt.Sprintf("%s after Reset: the query for children of the first entity counts %d, want 1", what, n))
	}
	q.Close()
	w.RemoveEntity(es[0])
	if t := rm.GetRelation(child, 0); !t.IsZero() {
		msgs = append(msgs, fmt.Sprintf("%s after Reset: child of a removed target has target %v", what, t))
	}
	if n := w.Stats().Entities.Used; n != 4 {
		msgs = append(msgs, fmt.Sprintf("%s after Reset: %d entities alive after 5 creations and 1 removal", what, n))
	}
	return msgs
}
