// worker runs a shard of generated histories for one property's profile under the
// monitors and writes a JSON summary.
package main

import (
	"encoding/json"
	"flag"
	"fmt"
	"os"
	"runtime"
	"sort"
	"strings"
	"time"

	"verifharness/eng"
	"verifharness/typed"
)

type violationOut struct {
	Case    int      `json:"case"`
	Seed    uint64   `json:"seed"`
	Profile string   `json:"profile"`
	Config  string   `json:"config"`
	Msgs    []string `json:"violations"`
	Ops     []string `json:"ops"`
}

type out struct {
	Prop            string              `json:"prop"`
	Profile         string              `json:"profile"`
	Seed            uint64              `json:"seed"`
	Shard           int                 `json:"shard"`
	Cases           int                 `json:"cases"`
	Ops             int64               `json:"ops"`
	Hashes          map[string]bool     `json:"hashes"` // hash -> nontrivial
	Violations      []violationOut      `json:"violations"`
	Samples         [][]string          `json:"samples"`
	Counters        map[string]int64    `json:"counters"`
	Misuse          map[string]int64    `json:"misuse,omitempty"`
	Methods         map[string]int64    `json:"methods,omitempty"`
	Digests         map[string]string   `json:"digests,omitempty"` // case -> final digest
	DistinctMasks   int                 `json:"distinct_masks"`
	DistinctFilters int                 `json:"distinct_filters"`
	WallS           float64             `json:"wall_s"`
	Harness         int                 `json:"harness_panics"`
	Scenarios       map[string][]string `json:"scenarios"` // directed scenario -> failure messages (empty = held)
}

func main() {
	prop := flag.String("prop", "C01", "property id (labels output)")
	profile := flag.String("profile", "general", "generator profile")
	seed := flag.Uint64("seed", 1, "base seed")
	shard := flag.Int("shard", 0, "shard index")
	nshards := flag.Int("nshards", 1, "number of shards")
	cases := flag.Int("cases", 100, "total number of cases over all shards")
	order := flag.Int("order", 0, "order in which the shard's cases run: 0 ascending, 1 descending, n>1 shuffled by n")
	minOps := flag.Int("minops", 150, "min ops per history")
	maxOps := flag.Int("maxops", 400, "max ops per history")
	sweepEvery := flag.Int("sweep", 1, "sweep every n ops")
	deepEvery := flag.Int("deep", 4, "deep sweep every n sweeps")
	queries := flag.Int("queries", 1, "sampled filters per sweep")
	standing := flag.Int("standing", 0, "standing filter comparison every n ops")
	statsEvery := flag.Int("stats", 0, "stats rules every n ops")
	twin := flag.String("twin", "", "twin world: same | unsafe")
	digest := flag.Bool("digest", false, "emit determinism digests")
	replay := flag.Int("replaychecks", 0, "replay-twin checkpoints per case")
	maxComps := flag.Int("maxcomps", 256, "component capacity of this build (64 under ark_tiny)")
	latePct := flag.Int("late", 0, "share of cases with late type registration (0: default)")
	avoid := flag.String("avoid", "", "comma-separated known-finding avoid rules")
	shrinkBounds := flag.Bool("shrinkbounds", false, "check capacity bounds after unbounded Shrink")
	shrinkConv := flag.Bool("shrinkconv", false, "check convergence of Shrink(0)")
	deadQ := flag.Bool("deadq", false, "sample queries with dead relation targets")
	outPath := flag.String("out", "", "output JSON path")
	progress := flag.String("progress", "", "progress file")
	only := flag.Int("only", -1, "run only this case index (replay)")
	covKey := flag.String("covkey", "", "per-case coverage flag that makes a case non-trivial")
	relProc := flag.Bool("relcache-process", false, "C12: reuse world-independent relation argument lists across all cases of the process")
	matrix := flag.Bool("matrix", false, "C14: scripted method matrix per tuple at the start of every case")
	gcMode := flag.String("gc", "", "C11: 'stress' (background allocation + forced GCs) or 'collect' (finalizer-based collectability checks)")
	flag.Parse()

	pf, ok := eng.Profiles[*profile]
	if !ok {
		fmt.Fprintln(os.Stderr, "unknown profile", *profile)
		os.Exit(2)
	}
	p := pf()
	o := &eng.Opts{MinOps: *minOps, MaxOps: *maxOps, SweepEvery: *sweepEvery, DeepEvery: *deepEvery, QueriesPerSweep: *queries,
		StandingEvery: *standing, StatsEvery: *statsEvery, Twin: *twin, Digest: *digest, ReplayChecks: *replay, MaxComponents: *maxComps, LatePct: *latePct,
		Avoid: map[string]bool{}, ShrinkBounds: *shrinkBounds, ShrinkConverge: *shrinkConv, DeadTargetQueries: *deadQ}
	for _, a := range strings.Split(*avoid, ",") {
		if a != "" {
			o.Avoid[a] = true
		}
	}
	if *progress != "" {
		f, err := os.Create(*progress)
		if err == nil {
			o.Progress = f
			defer f.Close()
		}
	}
	o.Matrix = *matrix
	o.CapChoices = p.Caps
	o.RelCacheProcess = *relProc
	var gcm *eng.GCMon
	switch *gcMode {
	case "stress":
		gcm = eng.NewGCMon()
		gcm.StartChurn()
		o.GC = gcm
		o.ForceGCEvery = 5
	case "collect":
		gcm = eng.NewGCMon()
		o.GC = gcm
		o.GCEvery = 60
	}
	st := eng.NewStats()
	res := out{Prop: *prop, Profile: *profile, Seed: *seed, Shard: *shard, Hashes: map[string]bool{}, Counters: map[string]int64{}, Digests: map[string]string{}}
	t0 := time.Now()
	res.Scenarios = map[string][]string{}
	if *shard == 0 && *only < 0 {
		for _, sc := range eng.Scenarios {
			for _, pr := range sc.Props {
				if sc.OnlyIf != nil && !sc.OnlyIf() {
					break
				}
				if pr == *prop || *prop == "all" {
					var msgs []string
					func() {
						defer func() {
							if p := recover(); p != nil {
								msgs = append(msgs, fmt.Sprintf("scenario panicked: %v", p))
							}
						}()
						msgs = sc.Run()
					}()
					if msgs == nil {
						msgs = []string{}
					}
					res.Scenarios[sc.Name] = msgs
					break
				}
			}
		}
	}
	// the order in which a process runs its cases must not matter: worlds share no state
	var list []int
	for c := *shard; c < *cases; c += *nshards {
		list = append(list, c)
	}
	switch {
	case *order == 1:
		for i, j := 0, len(list)-1; i < j; i, j = i+1, j-1 {
			list[i], list[j] = list[j], list[i]
		}
	case *order > 1:
		r := eng.NewRng(uint64(*order) * 0x9e3779b97f4a7c15)
		for i := len(list) - 1; i > 0; i-- {
			j := r.Intn(i + 1)
			list[i], list[j] = list[j], list[i]
		}
	}
	for _, c := range list {
		if *only >= 0 && c != *only {
			continue
		}
		cr := eng.RunCase(*seed, c, &p, o, st)
		res.Cases++
		res.Ops += int64(cr.NOps)
		nontrivial := cr.Effective >= 20
		if *covKey != "" {
			nontrivial = nontrivial && cr.Cov[*covKey] > 0
		}
		res.Hashes[cr.Hash] = res.Hashes[cr.Hash] || nontrivial
		for _, k := range eng.SortedKeys(cr.Cov) {
			res.Counters["cov:"+k] += cr.Cov[k]
			res.Counters["cases-with:"+k]++
		}
		if *digest && len(cr.Digests) > 0 {
			res.Digests[fmt.Sprint(c)] = strings.Join(cr.Digests, ",")
		}
		if cr.HarnessPanic != "" {
			fmt.Printf("HARNESS-PANIC case=%d seed=%d\n%s\n", c, *seed, cr.HarnessPanic)
			n := len(cr.Ops)
			for i := max(0, n-6); i < n; i++ {
				fmt.Printf("    op#%d %s\n", i, cr.Ops[i])
			}
			res.Harness++
			break
		}
		if len(cr.Viol) > 0 {
			v := violationOut{Case: c, Seed: *seed, Profile: *profile, Config: cr.Config, Ops: cr.Ops}
			for _, x := range cr.Viol {
				v.Msgs = append(v.Msgs, x.String())
			}
			res.Violations = append(res.Violations, v)
			if len(res.Violations) >= 5 {
				break
			}
		} else if len(res.Samples) < 2 && nontrivial {
			ops := cr.Ops
			if len(ops) > 40 {
				ops = ops[:40]
			}
			res.Samples = append(res.Samples, append([]string{cr.Config}, ops...))
		}
	}
	res.WallS = time.Since(t0).Seconds()
	// counters
	for k := eng.Kind(0); k < eng.NKinds; k++ {
		if st.Ops[k] > 0 {
			res.Counters["op:"+k.String()] = st.Ops[k]
		}
	}
	pn := []string{"unsafe", "map", "mapN", "exchangeN"}
	for i, n := range st.Paths {
		res.Counters["path:"+pn[i]] = n
	}
	for e := eng.EvType(0); e < eng.NEv; e++ {
		res.Counters["event:"+e.String()] = st.EvSeen[e]
	}
	res.Counters["panics"] = st.Panics
	res.Counters["expected-panics"] = st.ExpPanics
	res.Counters["observers-registered-after-serving-in-another-world"] = st.ObserverReuse
	res.Counters["late-type-round-trips"] = st.LateRoundTrips
	res.Counters["observers-registered-inside-callbacks"] = st.RegInCallback
	res.Counters["stats-comparisons-around-rejected-calls"] = st.RejectedStatsCmp
	res.Counters["standing-filters-with-prior-batch-call"] = st.FilterSpareBatch
	res.Counters["relation-lists-reused-by-another-world"] = st.RelListsShared
	res.Counters["stats-calls-inside-callbacks"] = st.StatsInCallback
	res.Counters["running-batch-filter-reused-inside-callback"] = st.FilterReuse
	res.Counters["locked-table-rows-tried-inside-callbacks"] = st.NestedRows
	res.Counters["bystander-world-batch-ops-inside-callbacks"] = st.BystanderOps
	res.Counters["rejected-calls-through-the-running-ops-object"] = st.NestedSameObject
	res.Counters["sweeps"] = st.Sweeps
	res.Counters["entity-checks"] = st.EntChecks
	res.Counters["component-checks"] = st.CompChecks
	res.Counters["zero-value-checks"] = st.ZeroChecks
	res.Counters["queries-judged"] = st.Queries
	res.Counters["query-entities"] = st.QueryEnts
	res.Counters["cached-vs-uncached-comparisons"] = st.CachedCmp
	res.Counters["batch-callbacks"] = st.BatchCb
	res.Counters["observer-judgements"] = st.ObsJudged
	res.Counters["observer-callbacks"] = st.ObsFired
	res.Counters["observer-may"] = st.ObsMay
	res.Counters["probes"] = st.Probes
	res.Counters["target-deaths-with-children"] = st.TargetDeaths
	res.Counters["children-detached"] = st.Detached
	res.Counters["recycled-handles"] = st.Recycled
	res.Counters["max-open-queries"] = st.MaxOpenQ
	res.Counters["max-alive-entities"] = st.MaxAlive
	res.Counters["max-tables"] = st.MaxTables
	res.Counters["max-table-size"] = st.MaxTableSize
	res.Counters["lock-checks"] = st.LockChecks
	res.Counters["shrink-calls"] = st.ShrinkCalls
	res.Counters["resets"] = st.Resets
	res.Counters["stats-calls"] = st.StatsCalls
	if gcm != nil {
		var ms runtime.MemStats
		runtime.ReadMemStats(&ms)
		res.Counters["gc-cycles"] = int64(ms.NumGC)
		res.Counters["gc-boxes-allocated"] = gcm.Alloc.Load()
		res.Counters["gc-boxes-finalized"] = gcm.Final.Load()
		res.Counters["gc-orphaned-boxes-checked"] = st.GCOrphans
		res.Counters["gc-orphaned-boxes-collected"] = st.GCCollected
		res.Counters["gc-collectability-checks"] = st.GCChecks
		res.Counters["gc-background-allocations"] = gcm.Churn.Load()
	}
	res.DistinctMasks = len(st.Masks)
	res.DistinctFilters = len(st.FilterSpecs)
	res.Misuse = st.Misuse
	res.Methods = map[string]int64{}
	for i, n := range typed.MethodNames {
		res.Methods[n] = typed.Calls[i].Load()
	}
	b, _ := json.Marshal(res)
	if *outPath != "" {
		os.WriteFile(*outPath, b, 0o644)
	} else {
		// brief human summary
		keys := make([]string, 0, len(res.Counters))
		for k := range res.Counters {
			keys = append(keys, k)
		}
		sort.Strings(keys)
		for _, k := range keys {
			fmt.Printf("%-40s %d\n", k, res.Counters[k])
		}
		fmt.Printf("cases=%d ops=%d distinct=%d masks=%d filters=%d wall=%.1fs\n", res.Cases, res.Ops, len(res.Hashes), res.DistinctMasks, res.DistinctFilters, res.WallS)
	}
	for n, msgs := range res.Scenarios {
		for _, m := range msgs {
			fmt.Printf("SCENARIO-FAIL %s: %s\n", n, m)
		}
	}
	for _, v := range res.Violations {
		fmt.Printf("VIOLATION-CASE case=%d seed=%d config=%s\n", v.Case, v.Seed, v.Config)
		for _, m := range v.Msgs {
			fmt.Println("   ", m)
		}
		n := len(v.Ops)
		lo := n - 8
		if lo < 0 {
			lo = 0
		}
		for i := lo; i < n; i++ {
			fmt.Printf("    op#%d %s\n", i, v.Ops[i])
		}
	}
	if res.Harness > 0 {
		os.Exit(3)
	}
	if len(res.Violations) > 0 {
		os.Exit(1)
	}
}
