package eng

import (
	"fmt"

	"github.com/mlange-42/ark/ecs"
	u "verifharness/universe"
)

// bystander is a small second world private to a driver. From inside the callbacks of operations on the driver's
// world (batch callbacks, observer callbacks) batch operations are run on the bystander: worlds share no state, so
// neither the running operation nor the bystander may notice. (A program with several worlds may do exactly this.)
type bystander struct {
	w       *ecs.World
	p8      *ecs.Map1[u.P8]
	p4      *ecs.Map1[u.P4]
	r0      *ecs.Map1[u.R0]
	withP8  *ecs.Filter1[u.P8]
	withP4  *ecs.Filter1[u.P4]
	withR0  *ecs.Filter1[u.R0]
	targets [2]ecs.Entity
	n       int
	hasP4   bool
	cur     int
}

const bystanderEntities = 6

func newBystander() *bystander {
	b := &bystander{w: ecs.NewWorld(2)}
	b.p8 = ecs.NewMap1[u.P8](b.w)
	b.p4 = ecs.NewMap1[u.P4](b.w)
	b.r0 = ecs.NewMap1[u.R0](b.w)
	b.withP8 = ecs.NewFilter1[u.P8](b.w)
	b.withP4 = ecs.NewFilter1[u.P4](b.w)
	b.withR0 = ecs.NewFilter1[u.R0](b.w)
	b.targets[0], b.targets[1] = b.w.NewEntity(), b.w.NewEntity()
	p2 := ecs.NewMap1[u.P2](b.w)
	for i := 0; i < bystanderEntities; i++ {
		e := b.p8.NewEntity(&u.P8{V: int64(100 + i)})
		if i%2 == 0 {
			p2.Add(e, &u.P2{V: 7}) // a second table
		}
		if i%3 == 0 {
			b.r0.Add(e, &u.R0{}, ecs.RelIdx(0, b.targets[0])) // and relation tables
		}
	}
	return b
}

func count[T any](q ecs.Query1[T]) int {
	n := 0
	for q.Next() {
		n++
	}
	return n
}

// poke runs one batch operation on the bystander world and checks the bystander afterwards.
func (d *Drv) poke(where string) {
	if d.NoBystander {
		return
	}
	if d.by == nil {
		d.by = newBystander()
	}
	b := d.by
	b.n++
	d.Stat.BystanderOps++
	switch b.n % 3 {
	case 0:
		if b.hasP4 {
			b.p4.RemoveBatch(b.withP8.Batch(), nil)
		} else {
			b.p4.AddBatch(b.withP8.Batch(), &u.P4{V: 9})
		}
		b.hasP4 = !b.hasP4
	case 1:
		b.cur = 1 - b.cur
		b.r0.SetRelationsBatch(b.withR0.Batch(), nil, ecs.RelIdx(0, b.targets[b.cur]))
	default:
		n := 0
		b.w.RemoveEntities(b.withP8.Batch(), func(ecs.Entity) { n++ })
		if n != bystanderEntities {
			d.viol("C12", "bystander-world", "%s: RemoveEntities on the bystander world visited %d entities, has %d", where, n, bystanderEntities)
		}
		p2 := ecs.NewMap1[u.P2](b.w)
		b.hasP4 = false
		for i := 0; i < bystanderEntities; i++ {
			e := b.p8.NewEntity(&u.P8{V: int64(100 + i)})
			if i%2 == 0 {
				p2.Add(e, &u.P2{V: 7})
			}
			if i%3 == 0 {
				b.r0.Add(e, &u.R0{}, ecs.RelIdx(0, b.targets[b.cur]))
			}
		}
	}
	wantP4 := 0
	if b.hasP4 {
		wantP4 = bystanderEntities
	}
	nP8, nP4 := count(b.withP8.Query()), count(b.withP4.Query())
	nR0 := count(b.withR0.Query(ecs.RelIdx(0, b.targets[b.cur])))
	nOld := count(b.withR0.Query(ecs.RelIdx(0, b.targets[1-b.cur])))
	if nP8 != bystanderEntities || nP4 != wantP4 || nR0 != bystanderEntities/3 || nOld != 0 || b.w.IsLocked() {
		d.viol("C12", "bystander-world", "%s: the bystander world has %d/%d/%d/%d entities with P8 / P4 / R0->current / R0->other target, expected %d/%d/%d/0 (locked=%v): %s",
			where, nP8, nP4, nR0, nOld, bystanderEntities, wantP4, bystanderEntities/3, b.w.IsLocked(), fmt.Sprint(b.n))
	}
}
