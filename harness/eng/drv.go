package eng

import (
	"fmt"
	"reflect"
	"strings"
	"unsafe"

	"github.com/mlange-42/ark/ecs"
	"verifharness/typed"
	u "verifharness/universe"
)

// Config is a world configuration.
type Config struct {
	Caps    []int // arguments of NewWorld (0, 1 or 2 values)
	Fillers int   // filler component types registered before the universe
	Late    int   // further filler types that may be registered during the history
	Perm    []int // registration order of the universe types
}

func (c Config) String() string {
	return fmt.Sprintf("caps=%v fillers=%d late=%d perm=%v", c.Caps, c.Fillers, c.Late, c.Perm)
}

// Violation is a monitor finding.
type Violation struct {
	Prop string // property family the monitor belongs to (informational)
	Kind string
	Msg  string
	Op   int
}

func (v Violation) String() string {
	return fmt.Sprintf("[%s] op#%d %s: %s", v.Prop, v.Op, v.Kind, v.Msg)
}

type sfilter struct {
	inst typed.TFilter // registered / unregistered by ops
	twin typed.TFilter // never registered
}

type obsInst struct {
	gen   *ecs.Observer
	typ   typed.TObs
	epoch int
}

type queryInst struct {
	open  bool
	uq    *ecs.UnsafeQuery
	tq    typed.TQuery
	spec  *FSpec
	seen  map[ecs.Entity]int
	steps int
	cur   bool // positioned on an entity
}

type firedRec struct {
	slot int
	e    EID
	ok   bool // handle resolved
}

// Drv drives one real world and monitors it against the shared model.
type Drv struct {
	Name     string
	W        *ecs.World
	U        ecs.Unsafe
	Cfg      Config
	M        *Model
	ID       [u.N]ecs.ID
	LateID   []ecs.ID // component types registered during the history (KRegType)
	lateUsed []int
	lateMaps map[int]any
	Maps     [u.N]u.MapT
	tmaps    map[int]typed.TMap
	H        []ecs.Entity
	ByH      map[ecs.Entity]EID
	SF       []sfilter
	Obs      []obsInst
	Q        []queryInst
	Custom   [2]ecs.EventType

	// ForceUnsafe makes the driver execute every op through the ID-based API,
	// decomposing batch ops into per-entity calls (C14 / C06 twin).
	ForceUnsafe bool
	// NoProbe disables in-callback probes.
	NoProbe bool

	opIdx           int
	cur             *Exp
	newAssigned     int
	fired           []firedRec
	touched         map[int]bool // observer slots (un)registered during the current op
	unregDuring     []int
	regDuring       []RegRec
	serial          uint64
	foreignMaxID    uint32 // highest entity ID used in this epoch by temporary entities the model does not know
	cbSeen          map[EID]int
	inBatchCb       bool
	Viol            []Violation
	Stat            *Stats
	viaNewCtr       int
	triedStructural bool
	leaked          bool
	reusedFilter    bool
	by              *bystander
	NoBystander     bool
	StatsInCb       bool // call Stats() inside batch and observer callbacks (C19)
	statsCbCtr      int
	curExch         typed.TExch // exchange object of the running op
	args            []argGuard
	Guard           bool // argument slices are watched / shared (off for concurrent use of the driver)
	transient       typed.TFilter
	exhausted       []int
}

// Stats are measured coverage counters.
type Stats struct {
	Ops              [NKinds]int64
	Paths            [NPaths]int64
	Panics           int64
	BystanderOps     int64
	ObserverReuse    int64
	RegInCallback    int64 // observers registered from inside observer callbacks
	RejectedStatsCmp int64 // per-archetype Stats() comparisons around calls rejected for their arguments
	FilterSpareBatch int64 // standing filters that served a Batch(rel) call before their first query
	RelListsShared   int64 // relation argument lists (built with Rel/RelIdx) handed to a world after another world had used them
	LateRoundTrips   int64 // add/query/remove round trips with a component type registered in mid-history
	StatsInCallback  int64 // Stats() rules applied from inside batch and observer callbacks
	FilterReuse      int64
	NestedRows       int64
	NestedSameObject int64 // rejected calls made from a callback through the object the running op was called on
	ExpPanics        int64
	Sweeps           int64
	EntChecks        int64
	CompChecks       int64
	Queries          int64
	QueryEnts        int64
	CachedCmp        int64
	BatchCb          int64
	ObsJudged        int64
	ObsFired         int64
	ObsMay           int64
	Probes           int64
	TargetDeaths     int64 // removed entities that had children
	Detached         int64
	Recycled         int64 // handles issued with generation > 0
	MaxOpenQ         int64
	MaxAlive         int64 // largest number of alive entities seen at a Stats() rule evaluation or case end
	MaxTables        int64 // largest number of tables (free ones included)
	MaxTableSize     int64 // largest table
	LockChecks       int64
	Masks            map[CSet]bool
	FilterSpecs      map[string]bool
	ShrinkCalls      int64
	Resets           int64
	StatsCalls       int64
	ZeroChecks       int64
	Misuse           map[string]int64
	EvSeen           [NEv]int64
	GCOrphans        int64
	GCCollected      int64
	GCChecks         int64
}

func NewStats() *Stats {
	return &Stats{Masks: map[CSet]bool{}, FilterSpecs: map[string]bool{}, Misuse: map[string]int64{}}
}

// NewDrv creates a world with the given configuration.
func NewDrv(name string, cfg Config, m *Model, st *Stats) *Drv {
	d := &Drv{Name: name, Cfg: cfg, M: m, Stat: st, Guard: true, ByH: map[ecs.Entity]EID{}, tmaps: map[int]typed.TMap{}, touched: map[int]bool{}}
	drvSerial++
	d.serial = drvSerial
	d.W = ecs.NewWorld(cfg.Caps...)
	d.U = d.W.Unsafe()
	for k := 0; k < cfg.Fillers; k++ {
		ecs.TypeID(d.W, u.Filler(k))
	}
	if (cfg.Fillers+len(cfg.Caps))%2 == 1 {
		// in half of the configurations the registration of a (pointer-free) type is attempted and rejected on the locked
		// world first: the next type registered - a universe type - gets the ID that was rolled back, and nothing else of it
		q := ecs.NewFilter0(d.W).Query()
		func() {
			defer func() { recover() }()
			ecs.TypeID(d.W, u.Filler(3000))
		}()
		q.Close()
	}
	perm := cfg.Perm
	if perm == nil {
		for i := 0; i < u.N; i++ {
			perm = append(perm, i)
		}
	}
	for _, c := range perm {
		d.ID[c] = u.Types[c].RegisterID(d.W)
	}
	for c := 0; c < u.N; c++ {
		d.Maps[c] = u.Types[c].NewMap(d.W)
	}
	if cfg.Late > 0 {
		// the registry grows during the history: every typed mapper exists before it does
		for t := range typed.Tuples {
			d.TMap(t)
		}
	}
	var reg ecs.EventRegistry
	d.Custom[0] = reg.NewEventType()
	d.Custom[1] = reg.NewEventType()
	return d
}

func (d *Drv) viol(prop, kind, format string, a ...any) {
	if len(d.Viol) < 20 {
		d.Viol = append(d.Viol, Violation{Prop: prop, Kind: kind, Msg: d.Name + ": " + fmt.Sprintf(format, a...), Op: d.opIdx})
	}
}

func (d *Drv) viaNew() bool { d.viaNewCtr++; return d.viaNewCtr%3 == 0 }

// TMap returns (lazily creating) the typed mapper for a tuple.
func (d *Drv) TMap(t int) typed.TMap {
	if m, ok := d.tmaps[t]; ok {
		return m
	}
	m := typed.Tuples[t].NewMap(d.W, d.viaNew())
	d.tmaps[t] = m
	return m
}

// h returns the handle for an EID (zero entity for ZeroE).
func (d *Drv) h(e EID) ecs.Entity {
	if e == ZeroE {
		return ecs.Entity{}
	}
	return d.H[e]
}

func (d *Drv) hs(es []EID) []ecs.Entity {
	r := guarded(d, "[]ecs.Entity", len(es), ecs.Entity{})
	for i, e := range es {
		r[i] = d.h(e)
	}
	return seal(d, r)
}

// RelCache holds the world-independent relation argument lists of the current case (nil: no sharing).
var RelCache map[string][]ecs.Relation

// relCacheOwner remembers the driver (by serial number - not by pointer, which would keep every world of the process
// alive) a cached list was first handed to (coverage counter only).
var relCacheOwner map[string]uint64

var drvSerial uint64

// argGuard watches one slice handed to the library as an argument: the library must neither modify it (including the
// spare capacity behind its length) nor keep using it after the call returned - the caller may reuse it as a scratch buffer.
type argGuard struct {
	what   string
	intact func() bool
	poison func()
}

// guarded allocates an argument slice of length n with two spare elements of capacity.
func guarded[T comparable](d *Drv, what string, n int, fill T) []T {
	r := make([]T, n+2)
	r[n], r[n+1] = fill, fill
	return r[:n]
}

// seal registers a filled argument slice with the driver; fill is what the slice is overwritten with after the call.
func seal[T comparable](d *Drv, r []T) []T {
	if !d.Guard {
		return r
	}
	full := r[:cap(r)]
	cp := append([]T(nil), full...)
	var zero T
	d.args = append(d.args, argGuard{what: fmt.Sprintf("%T", r),
		intact: func() bool {
			if _, isRel := any(r).([]ecs.Relation); isRel {
				return true // a Relation may carry a cached lookup
			}
			for i := range full {
				if full[i] != cp[i] {
					return false
				}
			}
			return true
		},
		poison: func() {
			for i := range full {
				full[i] = zero
			}
		}})
	return r
}

// flushArgs checks and then scribbles over all argument slices handed out since the last flush.
func (d *Drv) flushArgs(where string) {
	scribbleComps()
	for i := range d.args {
		if !d.args[i].intact() {
			d.viol("C01", "caller-slice-modified", "%s: the library modified a caller-owned %s argument (or its spare capacity)", where, d.args[i].what)
		}
		d.args[i].poison()
	}
	d.args = d.args[:0]
}

func (d *Drv) bind(e EID, h ecs.Entity) {
	if old, dup := d.ByH[h]; dup {
		d.viol("C02", "duplicate-handle", "handle %v issued for EID %d was already issued for EID %d", h, e, old)
	}
	if h.IsZero() {
		d.viol("C02", "zero-handle", "creation returned the zero entity for EID %d", e)
	}
	for len(d.H) <= int(e) {
		d.H = append(d.H, ecs.Entity{})
	}
	d.H[e] = h
	d.ByH[h] = e
	if d.Name == "A" || d.Name == "W" {
		for len(d.M.HID) <= int(e) {
			d.M.HID = append(d.M.HID, 0)
		}
		d.M.HID[e] = h.ID()
	}
	if h.Gen() > 0 {
		d.Stat.Recycled++
	}
}

// resolve maps a handle reported by the world to an EID; unknown handles during a
// creating op are bound to the next unassigned new EID.
func (d *Drv) resolve(h ecs.Entity) (EID, bool) {
	if id, ok := d.ByH[h]; ok {
		return id, true
	}
	if d.cur != nil && d.newAssigned < len(d.cur.NewE) {
		id := d.cur.NewE[d.newAssigned]
		d.newAssigned++
		d.bind(id, h)
		return id, true
	}
	return 0, false
}

func (d *Drv) ids(cs []int) []ecs.ID {
	r := guarded(d, "[]ecs.ID", len(cs), ecs.ID{})
	for i, c := range cs {
		r[i] = d.ID[c]
	}
	return seal(d, r)
}

// CompGuard enables the scribbling over of component lists handed to the library (off for concurrent use).
var CompGuard = true

var compLists [][]ecs.Comp

// comps builds a component list argument. Every list handed out earlier is scribbled over first: a caller may reuse
// such a list as a scratch buffer as soon as the call that received it has returned (builders like With/For/Removes
// must not keep it).
func comps(cs []int) []ecs.Comp {
	scribbleComps()
	r := make([]ecs.Comp, len(cs), len(cs)+2)
	for i, c := range cs {
		r[i] = u.Types[c].Comp
	}
	if CompGuard {
		compLists = append(compLists, r)
	}
	return r
}

func scribbleComps() {
	for _, l := range compLists {
		full := l[:cap(l)]
		for i := range full {
			full[i] = ecs.Comp{}
		}
	}
	compLists = compLists[:0]
}

// relStyle selects how ecs.Relation values are built.
const (
	relByType = iota
	relByID
	relByIdx
)

// rels builds ecs.Relation values; order lists the component order of the mapper/filter for RelIdx.
func (d *Drv) rels(rs []RelT, order []int, style int) []ecs.Relation {
	if len(rs) == 0 {
		return nil
	}
	// Relation lists built by type or by index do not depend on the world: a caller may build them once and reuse
	// them, also with other worlds. All drivers of a case share such lists (RelCache is reset per case); the library
	// documents that it may cache a lookup inside a Relation, so their content is not compared. Lists built with
	// RelID are world-specific: fresh per call and scribbled over afterwards.
	var key string
	if d.Guard && RelCache != nil {
		if style != relByID {
			var b strings.Builder
			fmt.Fprint(&b, style, order)
			for _, r := range rs {
				fmt.Fprint(&b, " ", r.C, d.h(r.T))
			}
			key = b.String()
		}
		if c, ok := RelCache[key]; ok && key != "" {
			if relCacheOwner[key] != d.serial {
				d.Stat.RelListsShared++ // a list first handed to another world
			}
			return c
		}
	}
	out := make([]ecs.Relation, len(rs), len(rs)+2)
	if key == "" {
		defer func() { seal(d, out) }()
	} else {
		RelCache[key] = out
		if relCacheOwner == nil || len(RelCache) == 1 {
			relCacheOwner = map[string]uint64{}
		}
		relCacheOwner[key] = d.serial
	}
	for i, r := range rs {
		st := style
		if st == relByIdx {
			pos := -1
			for k, c := range order {
				if c == r.C {
					pos = k
				}
			}
			if pos < 0 {
				st = relByType
			} else {
				out[i] = ecs.RelIdx(pos, d.h(r.T))
				continue
			}
		}
		if st == relByID {
			out[i] = ecs.RelID(d.ID[r.C], d.h(r.T))
		} else {
			out[i] = u.Types[r.C].Rel(d.h(r.T))
		}
	}
	return out
}

func (d *Drv) targets(rs []RelT) []ecs.Entity {
	if len(rs) == 0 {
		return nil
	}
	r := guarded(d, "[]ecs.Entity", len(rs), ecs.Entity{})
	for i, x := range rs {
		r[i] = d.h(x.T)
	}
	return seal(d, r)
}

// buildTyped builds a typed filter (Filter0 or FilterN) from a spec.
func (d *Drv) buildTyped(f *FSpec) typed.TFilter {
	var tf typed.TFilter
	var order []int
	if f.Kind == FTyped {
		tf = typed.Tuples[f.Tuple].NewFilter(d.W, d.viaNew())
		order = append(order, TupleComps(f.Tuple)...)
	} else {
		tf = typed.NewFilter0(d.W, d.viaNew())
	}
	if len(f.With) > 0 {
		if len(f.With) > 1 && d.viaNewCtr%2 == 0 {
			// chained calls are documented to be equivalent
			tf.With(comps(f.With[:1]))
			tf.With(comps(f.With[1:]))
		} else {
			tf.With(comps(f.With))
		}
		order = append(order, f.With...)
	}
	if f.Exclusive {
		tf.Exclusive()
	} else if len(f.Without) > 0 {
		if len(f.Without) > 1 && d.viaNewCtr%2 == 1 {
			tf.Without(comps(f.Without[:1]))
			tf.Without(comps(f.Without[1:]))
		} else {
			tf.Without(comps(f.Without))
		}
	}
	if len(f.Rels) > 1 && d.viaNewCtr%2 == 0 {
		// "can be called multiple times in chains, or once with multiple arguments"
		tf.Relations(d.rels(f.Rels[:1], order, d.viaNewCtr%3))
		tf.Relations(d.rels(f.Rels[1:], order, (d.viaNewCtr+1)%3))
	} else if len(f.Rels) > 0 {
		tf.Relations(d.rels(f.Rels, order, d.viaNewCtr%3))
	}
	return tf
}

func (d *Drv) filterOrder(f *FSpec) []int {
	var order []int
	if f.Kind == FTyped {
		order = append(order, TupleComps(f.Tuple)...)
	}
	return append(order, f.With...)
}

// buildUnsafe builds an UnsafeFilter from a spec (Rels are passed per query).
func (d *Drv) buildUnsafe(f *FSpec) ecs.UnsafeFilter {
	uf := ecs.NewUnsafeFilter(d.W, d.ids(f.Required().List())...)
	if f.Exclusive {
		uf = uf.Exclusive()
	} else if len(f.Without) > 0 {
		uf = uf.Without(d.ids(f.Without)...)
	}
	return uf
}

// typedOf converts an arbitrary spec into one usable for typed filters (FUnsafe -> FZero).
func typedOf(f *FSpec) *FSpec {
	if f.Kind != FUnsafe {
		return f
	}
	g := *f
	g.Kind = FZero
	return &g
}

func ptrOK(p unsafe.Pointer) bool { return p != nil }

func typeName(c int) string { return u.Types[c].Name }

var _ = reflect.TypeOf
