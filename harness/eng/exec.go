package eng

import (
	"fmt"
	"runtime/debug"
	"time"
	"unsafe"

	"github.com/mlange-42/ark/ecs"
	"verifharness/typed"
	u "verifharness/universe"
)

// Result is what the driver observed for one op.
type Result struct {
	Panicked bool
	PanicVal any
	Stack    string
}

// Exec executes op against the real world, under recover, with callbacks monitored.
func (d *Drv) Exec(op *Op, x *Exp, opIdx int) (res Result) {
	d.opIdx = opIdx
	d.cur = x
	d.newAssigned = 0
	d.fired = d.fired[:0]
	d.unregDuring = d.unregDuring[:0]
	d.regDuring = d.regDuring[:0]
	for k := range d.touched {
		delete(d.touched, k)
	}
	d.cbSeen = nil
	d.triedStructural = false
	d.reusedFilter = false
	d.curExch = nil
	d.leaked = false
	d.Stat.Ops[op.K]++
	d.Stat.Paths[op.Path]++
	d.flushArgs("monitors before " + op.K.String())
	defer d.flushArgs(op.K.String())
	func() {
		defer func() {
			if r := recover(); r != nil {
				res.Panicked = true
				res.PanicVal = r
				if !x.Panic {
					res.Stack = string(debug.Stack())
				}
			}
		}()
		d.exec(op, x)
	}()
	d.inBatchCb = false
	if res.Panicked {
		d.Stat.Panics++
	}
	return res
}

// writeVals writes planned values through pointers, in op.Add order.
func (d *Drv) writeVals(op *Op, ptrs []unsafe.Pointer, e EID, batch bool) {
	for j, c := range op.Add {
		v := op.Vals[j]
		if batch {
			v = BatchVal(op, j, e)
		}
		u.Types[c].Enc(ptrs[j], v)
	}
}

// checkPtrs verifies that callback pointers address the entity's live storage.
func (d *Drv) checkPtrs(h ecs.Entity, cs []int, ptrs []unsafe.Pointer, where string) {
	if len(ptrs) != len(cs) {
		d.viol("C14", "ptr-count", "%s: got %d pointers for %d components", where, len(ptrs), len(cs))
		return
	}
	for j, c := range cs {
		want := d.U.Get(h, d.ID[c])
		if ptrs[j] != want {
			d.viol("C14", "ptr-identity", "%s: pointer %d (%s) of %v is %p, Unsafe.Get gives %p", where, j, typeName(c), h, ptrs[j], want)
		}
	}
}

func (d *Drv) batchCbPtrs(op *Op, x *Exp, cs []int) func(ecs.Entity, typed.Ptrs) {
	d.cbSeen = map[EID]int{}
	return func(h ecs.Entity, ptrs typed.Ptrs) {
		d.Stat.BatchCb++
		id, ok := d.resolve(h)
		if !ok {
			d.viol("C06", "batch-cb-unknown", "batch callback for unknown handle %v", h)
			return
		}
		d.cbSeen[id]++
		if !d.W.IsLocked() {
			d.viol("C09", "batch-cb-unlocked", "world not locked inside batch callback")
		}
		d.structuralRejected("batch callback")
		d.statsInCallback("a batch callback of " + op.K.String())
		d.poke("batch callback of " + op.K.String())
		d.reuseFilter(op)
		d.leakQuery(op)
		if !d.W.Alive(h) {
			d.viol("C06", "batch-cb-dead", "batch callback for dead entity %v", h)
			return
		}
		d.checkPtrs(h, cs, ptrs, "batch callback")
		if op.Fn == FnCall {
			d.writeVals(op, ptrs, id, true)
		}
	}
}

func (d *Drv) batchCbEnt(x *Exp) func(ecs.Entity) {
	d.cbSeen = map[EID]int{}
	return func(h ecs.Entity) {
		d.Stat.BatchCb++
		id, ok := d.resolve(h)
		if !ok {
			d.viol("C06", "batch-cb-unknown", "batch callback for unknown handle %v", h)
			return
		}
		d.cbSeen[id]++
		if !d.W.IsLocked() {
			d.viol("C09", "batch-cb-unlocked", "world not locked inside batch callback")
		}
		d.structuralRejected("batch callback")
		d.statsInCallback("a batch callback of " + x.Op.K.String())
		d.poke("batch callback of " + x.Op.K.String())
		d.reuseFilter(x.Op)
		d.leakQuery(x.Op)
	}
}

// reuseFilter uses the filter object the running batch operation was created from, from inside its callback (first
// invocation only): a query with other per-query targets is opened, iterated and closed, and another Batch value is
// derived from it. All of that is legal on a locked world and must not disturb the operation in progress.
func (d *Drv) reuseFilter(op *Op) {
	if d.reusedFilter || op.SF < 0 || op.SF >= len(d.SF) || !d.Headroom() {
		return
	}
	d.reusedFilter = true
	sf := &d.SF[op.SF]
	f := sf.twin
	if op.Cached {
		f = sf.inst
	}
	if f == nil {
		return
	}
	spec := &d.M.Filters[op.SF].Spec
	// other targets than the running batch uses: the zero entity for every free relation component
	var other []RelT
	for _, c := range spec.Required().List() {
		if u.Types[c].IsRel && !relComps(spec.Rels).Has(c) {
			other = append(other, RelT{C: c, T: ZeroE})
		}
	}
	d.Stat.FilterReuse++
	q := f.Query(d.rels(other, d.filterOrder(spec), d.opIdx%3))
	n := 0
	for q.Next() {
		n++
		if n > d.limit() {
			q.Close()
			d.viol("C03", "query-runaway", "query of the running batch's filter object inside its callback exceeded %d steps", d.limit())
			break
		}
	}
	_ = f.Batch(d.rels(other, d.filterOrder(spec), (d.opIdx+1)%3))
}

// leakQuery opens the op's Leak query from inside a batch-creation callback (first invocation
// only) and leaves it open: its lifetime overlaps the library's internal callback lock. Creation
// callbacks run after all structural work of the operation, so the query sees the final state.
func (d *Drv) leakQuery(op *Op) {
	if op.Leak == nil || d.leaked || op.K != KNewBatch {
		return
	}
	d.leaked = true
	d.openQuery(op.Leak)
}

// Leaked reports whether the last op left its Leak query open.
func (d *Drv) Leaked() bool { return d.leaked }

// structuralRejected attempts one structure-changing operation inside a locked callback (first
// invocation per op only): it must panic; the sweep after the op proves it had no effect. When the
// running operation was called on a typed mapper / exchange object with relation arguments, every
// other attempt is made through that very object with other relation targets: a rejected call must
// not disturb the operation that is in progress either.
func (d *Drv) structuralRejected(where string) {
	if d.triedStructural || !d.W.IsLocked() {
		return
	}
	d.triedStructural = true
	var what string
	defer func() {
		if recover() == nil {
			d.viol("C07", "structural-in-callback", "%s succeeded inside a locked %s", what, where)
		}
	}()
	if op := d.cur.Op; len(op.Rels) > 0 && d.opIdx%2 == 0 && (op.Path == PTMap || op.Path == PTExch || op.Path == PMap1) {
		// another target than the running operation uses: an alive entity outside its targets, else the zero entity
		var other ecs.Entity
		var victim ecs.Entity
		for e := len(d.M.Ents) - 1; e >= 0; e-- {
			if !d.M.Ents[e].Alive || e >= len(d.H) || d.H[e].IsZero() {
				continue
			}
			if victim.IsZero() {
				victim = d.H[e]
			}
			used := false
			for _, r := range op.Rels {
				if r.T == EID(e) {
					used = true
				}
			}
			if !used {
				other = d.H[e]
				break
			}
		}
		if !victim.IsZero() {
			d.Stat.NestedSameObject++
			switch op.Path {
			case PTMap:
				what = "SetRelations through the mapper of the running operation"
				var rel []ecs.Relation
				for j, c := range TupleComps(op.Tuple) {
					if u.Types[c].IsRel {
						rel = append(rel, ecs.RelIdx(j, other))
					}
				}
				d.TMap(op.Tuple).SetRelations(victim, rel)
			case PMap1:
				what = "SetRelation through the Map[T] of the running operation"
				c := -1
				for _, r := range op.Rels {
					c = r.C
				}
				d.Maps[c].SetRelation(victim, other)
			case PTExch:
				if d.curExch == nil {
					break
				}
				what = "Add through the exchange object of the running operation"
				var rel []ecs.Relation
				for j, c := range TupleComps(op.Tuple) {
					if u.Types[c].IsRel {
						rel = append(rel, ecs.RelIdx(j, other))
					}
				}
				vals := make([]int64, len(TupleComps(op.Tuple)))
				d.curExch.Add(victim, vals, rel)
			}
			if what != "" {
				return // reached only if the call returned normally: reported by the deferred handler
			}
		}
	}
	// otherwise one row of the locked-world table (every structural entry point), applied to an alive entity that the
	// running operation does not touch
	if rows := lockedRows(); len(rows) > 0 && d.opIdx%4 != 3 {
		sel := map[EID]bool{}
		for _, e := range d.cur.Sel {
			sel[e] = true
		}
		for e := len(d.M.Ents) - 1; e >= d.M.Epoch0; e-- {
			st := &d.M.Ents[e]
			if !st.Alive || sel[EID(e)] || EID(e) == d.cur.Op.E || e >= len(d.H) || d.H[e].IsZero() || st.Mask == 0 || st.Mask.Len() >= u.N-3 {
				continue
			}
			pop := &Op{K: KMisuse, SF: -1, Tuple: -1, E: EID(e), N: d.opIdx}
			l := st.Mask.List()
			pop.Rem = []int{l[d.opIdx%len(l)]}
			for c := 0; c < u.N; c++ {
				if !st.Mask.Has(c) && !u.Types[c].IsRel {
					pop.Add = []int{c}
					break
				}
			}
			if len(pop.Add) == 0 {
				break
			}
			mc := &MisuseTable[rows[(d.opIdx/4)%len(rows)]]
			what = mc.Name
			d.Stat.NestedRows++
			func() {
				defer func() {
					if p := recover(); p != nil {
						if _, skip := p.(skipMisuse); skip {
							what = ""
							return
						}
						panic(p)
					}
				}()
				mc.Run(d, pop, d.H[e], ecs.Entity{})
			}()
			if what != "" {
				return // returned normally: reported by the deferred handler
			}
			break
		}
	}
	switch d.opIdx % 4 {
	case 0:
		what = "World.NewEntity"
		d.W.NewEntity()
	case 1:
		what = "Unsafe.NewEntity"
		d.U.NewEntity(d.ID[u.IP8])
	case 2:
		what = "World.Reset"
		d.W.Reset()
	default:
		what = "World.NewEntities"
		d.W.NewEntities(2, nil)
	}
}

var lockedRowsCache []int

// lockedRows lists the rows of the misuse table that are structural operations on a locked world.
func lockedRows() []int {
	if lockedRowsCache == nil {
		for i := range MisuseTable {
			if MisuseTable[i].Class == "locked" {
				lockedRowsCache = append(lockedRowsCache, i)
			}
		}
	}
	return lockedRowsCache
}

// batchOf builds the ecs.Batch for a batch op.
func (d *Drv) batchOf(op *Op) ecs.Batch {
	if op.SF >= 0 {
		sf := &d.SF[op.SF]
		spec := &d.M.Filters[op.SF].Spec
		f := sf.twin
		if op.Cached || (!d.M.Filters[op.SF].Registered && d.opIdx%2 == 0) {
			// (while it is not registered, the instance that ops register and unregister is used as well: what a
			// Batch or Query call leaves behind in it must not leak into a later registration)
			f = sf.inst
		}
		return f.Batch(d.rels(op.QRels, d.filterOrder(spec), d.opIdx%3))
	}
	spec := typedOf(op.F)
	f := d.buildTyped(spec)
	if op.Cached {
		f.Register()
		// transient registration: unregistered by the caller after the op
		d.transient = f
	}
	return f.Batch(d.rels(op.QRels, d.filterOrder(spec), d.opIdx%3))
}

func (d *Drv) exec(op *Op, x *Exp) {
	if d.ForceUnsafe {
		d.execUnsafe(op, x)
		return
	}
	switch op.K {
	case KNewEntity:
		var h ecs.Entity
		switch op.Path {
		case PUnsafe:
			if len(op.Add) == 0 && len(op.Rels) == 0 && op.Sub == 0 {
				h = d.W.NewEntity()
			} else if len(op.Rels) == 0 && op.Sub != 2 {
				h = d.U.NewEntity(d.ids(op.Add)...)
			} else {
				h = d.U.NewEntityRel(d.ids(op.Add), d.rels(op.Rels, nil, d.opIdx%2)...)
			}
		case PMap1:
			m := d.Maps[op.Add[0]]
			switch op.Fn {
			case FnValue:
				h = m.NewEntity(op.Vals[0], d.targets(op.Rels))
			case FnCall:
				h = m.NewEntityFn(func(p unsafe.Pointer) { u.Types[op.Add[0]].Enc(p, op.Vals[0]) }, d.targets(op.Rels))
			default:
				h = m.NewEntityFn(nil, d.targets(op.Rels))
			}
		case PTMap:
			m := d.TMap(op.Tuple)
			rel := d.rels(op.Rels, op.Add, d.opIdx%3)
			switch op.Fn {
			case FnValue:
				h = m.NewEntity(op.Vals, rel)
			case FnCall:
				h = m.NewEntityFn(func(p typed.Ptrs) { d.writeVals(op, p, 0, false) }, rel)
			default:
				h = m.NewEntityFn(nil, rel)
			}
		}
		d.bindReturned(x.NewE[0], h)
	case KNewBatch:
		n := op.N
		switch op.Path {
		case PUnsafe:
			var fn func(ecs.Entity)
			if op.BatchCb {
				fn = d.batchCbEnt(x)
			}
			d.W.NewEntities(n, fn)
		case PMap1:
			m := d.Maps[op.Add[0]]
			switch op.Fn {
			case FnValue:
				m.NewBatch(n, op.Vals[0], d.targets(op.Rels))
			case FnCall:
				cb := d.batchCbPtrs(op, x, op.Add)
				m.NewBatchFn(n, func(e ecs.Entity, p unsafe.Pointer) { cb(e, typed.Ptrs{p}) }, d.targets(op.Rels))
			default:
				m.NewBatchFn(n, nil, d.targets(op.Rels))
			}
		case PTMap:
			m := d.TMap(op.Tuple)
			rel := d.rels(op.Rels, op.Add, d.opIdx%3)
			switch op.Fn {
			case FnValue:
				m.NewBatch(n, op.Vals, rel)
			case FnCall:
				m.NewBatchFn(n, d.batchCbPtrs(op, x, op.Add), rel)
			default:
				m.NewBatchFn(n, nil, rel)
			}
		}
		d.discoverNew(x)
	case KAdd:
		h := d.h(op.E)
		switch op.Path {
		case PUnsafe:
			if len(op.Rels) == 0 && op.Sub != 2 {
				d.U.Add(h, d.ids(op.Add)...)
			} else {
				d.U.AddRel(h, d.ids(op.Add), d.rels(op.Rels, nil, d.opIdx%2)...)
			}
		case PMap1:
			m := d.Maps[op.Add[0]]
			switch op.Fn {
			case FnValue:
				m.Add(h, op.Vals[0], d.targets(op.Rels))
			case FnCall:
				m.AddFn(h, func(p unsafe.Pointer) {
					d.checkPtrs(h, op.Add, []unsafe.Pointer{p}, "Map.AddFn")
					u.Types[op.Add[0]].Enc(p, op.Vals[0])
				}, d.targets(op.Rels))
			default:
				m.AddFn(h, nil, d.targets(op.Rels))
			}
		case PTMap, PTExch:
			rel := d.rels(op.Rels, op.Add, d.opIdx%3)
			cb := func(p typed.Ptrs) {
				d.checkPtrs(h, op.Add, p, "AddFn")
				d.writeVals(op, p, 0, false)
			}
			if op.Path == PTMap {
				m := d.TMap(op.Tuple)
				switch op.Fn {
				case FnValue:
					m.Add(h, op.Vals, rel)
				case FnCall:
					m.AddFn(h, cb, rel)
				default:
					m.AddFn(h, nil, rel)
				}
			} else {
				ex := typed.Tuples[op.Tuple].NewExch(d.W, d.viaNew())
				d.curExch = ex
				switch op.Fn {
				case FnValue:
					ex.Add(h, op.Vals, rel)
				case FnCall:
					ex.AddFn(h, cb, rel)
				default:
					ex.AddFn(h, nil, rel)
				}
			}
		}
	case KRemove:
		h := d.h(op.E)
		switch op.Path {
		case PUnsafe:
			d.U.Remove(h, d.ids(op.Rem)...)
		case PMap1:
			d.Maps[op.Rem[0]].Remove(h)
		case PTMap:
			d.TMap(op.Tuple).Remove(h)
		case PTExch:
			ex := typed.Tuples[op.Tuple].NewExch(d.W, d.viaNew())
			d.curExch = ex
			ex.Removes(comps(op.Rem))
			ex.Remove(h)
		}
	case KExchange:
		h := d.h(op.E)
		switch op.Path {
		case PUnsafe:
			d.U.Exchange(h, d.ids(op.Add), d.ids(op.Rem), d.rels(op.Rels, nil, d.opIdx%2)...)
		case PTExch:
			ex := typed.Tuples[op.Tuple].NewExch(d.W, d.viaNew())
			d.curExch = ex
			if len(op.Rem) > 0 {
				ex.Removes(comps(op.Rem))
			}
			rel := d.rels(op.Rels, op.Add, d.opIdx%3)
			switch op.Fn {
			case FnValue:
				ex.Exchange(h, op.Vals, rel)
			case FnCall:
				ex.ExchangeFn(h, func(p typed.Ptrs) {
					d.checkPtrs(h, op.Add, p, "ExchangeFn")
					d.writeVals(op, p, 0, false)
				}, rel)
			default:
				ex.ExchangeFn(h, nil, rel)
			}
		}
	case KSet:
		h := d.h(op.E)
		if op.Path == PMap1 {
			d.Maps[op.Add[0]].Set(h, op.Vals[0])
		} else {
			d.TMap(op.Tuple).Set(h, op.Vals)
		}
	case KWrite:
		h := d.h(op.E)
		switch op.Path {
		case PUnsafe:
			for j, c := range op.Add {
				var p unsafe.Pointer
				if op.Sub == 1 {
					p = d.U.GetUnchecked(h, d.ID[c])
				} else {
					p = d.U.Get(h, d.ID[c])
				}
				u.Types[c].Enc(p, op.Vals[j])
			}
		case PMap1:
			for j, c := range op.Add {
				var p unsafe.Pointer
				if op.Sub == 1 {
					p = d.Maps[c].GetUnchecked(h)
				} else {
					p = d.Maps[c].Get(h)
				}
				u.Types[c].Enc(p, op.Vals[j])
			}
		case PTMap:
			m := d.TMap(op.Tuple)
			var ptrs typed.Ptrs
			if op.Sub == 1 {
				ptrs = m.GetUnchecked(h)
			} else {
				ptrs = m.Get(h)
			}
			d.checkPtrs(h, op.Add, ptrs, "MapN.Get")
			d.writeVals(op, ptrs, 0, false)
		}
	case KSetRel:
		h := d.h(op.E)
		switch op.Path {
		case PUnsafe:
			d.U.SetRelations(h, d.rels(op.Rels, nil, d.opIdx%2)...)
		case PMap1:
			d.Maps[op.Rels[0].C].SetRelation(h, d.h(op.Rels[0].T))
		case PTMap:
			d.TMap(op.Tuple).SetRelations(h, d.rels(op.Rels, TupleComps(op.Tuple), d.opIdx%3))
		}
	case KCopy:
		h := d.W.CopyEntity(d.h(op.E))
		d.bindReturned(x.NewE[0], h)
	case KRemoveEntity:
		d.W.RemoveEntity(d.h(op.E))
	case KAddBatch, KExchangeBatch:
		b := d.batchOf(op)
		defer d.dropTransient()
		switch op.Path {
		case PMap1:
			m := d.Maps[op.Add[0]]
			switch op.Fn {
			case FnValue:
				m.AddBatch(b, op.Vals[0], d.targets(op.Rels))
			case FnCall:
				cb := d.batchCbPtrs(op, x, op.Add)
				m.AddBatchFn(b, func(e ecs.Entity, p unsafe.Pointer) { cb(e, typed.Ptrs{p}) }, d.targets(op.Rels))
			default:
				m.AddBatchFn(b, nil, d.targets(op.Rels))
			}
		case PTMap:
			m := d.TMap(op.Tuple)
			rel := d.rels(op.Rels, op.Add, d.opIdx%3)
			switch op.Fn {
			case FnValue:
				m.AddBatch(b, op.Vals, rel)
			case FnCall:
				m.AddBatchFn(b, d.batchCbPtrs(op, x, op.Add), rel)
			default:
				m.AddBatchFn(b, nil, rel)
			}
		case PTExch:
			ex := typed.Tuples[op.Tuple].NewExch(d.W, d.viaNew())
			d.curExch = ex
			if len(op.Rem) > 0 {
				ex.Removes(comps(op.Rem))
			}
			rel := d.rels(op.Rels, op.Add, d.opIdx%3)
			if op.K == KAddBatch {
				switch op.Fn {
				case FnValue:
					ex.AddBatch(b, op.Vals, rel)
				case FnCall:
					ex.AddBatchFn(b, d.batchCbPtrs(op, x, op.Add), rel)
				default:
					ex.AddBatchFn(b, nil, rel)
				}
			} else {
				switch op.Fn {
				case FnValue:
					ex.ExchangeBatch(b, op.Vals, rel)
				case FnCall:
					ex.ExchangeBatchFn(b, d.batchCbPtrs(op, x, op.Add), rel)
				default:
					ex.ExchangeBatchFn(b, nil, rel)
				}
			}
		}
	case KRemoveBatch:
		b := d.batchOf(op)
		defer d.dropTransient()
		var fn func(ecs.Entity)
		if op.BatchCb {
			fn = d.batchCbEnt(x)
		}
		switch op.Path {
		case PMap1:
			d.Maps[op.Rem[0]].RemoveBatch(b, fn)
		case PTMap:
			d.TMap(op.Tuple).RemoveBatch(b, fn)
		case PTExch:
			ex := typed.Tuples[op.Tuple].NewExch(d.W, d.viaNew())
			d.curExch = ex
			ex.Removes(comps(op.Rem))
			ex.RemoveBatch(b, fn)
		}
	case KSetRelBatch:
		b := d.batchOf(op)
		defer d.dropTransient()
		var fn func(ecs.Entity)
		if op.BatchCb {
			fn = d.batchCbEnt(x)
		}
		if op.Path == PMap1 {
			d.Maps[op.Rels[0].C].SetRelationBatch(b, d.h(op.Rels[0].T), fn)
		} else {
			d.TMap(op.Tuple).SetRelationsBatch(b, fn, d.rels(op.Rels, TupleComps(op.Tuple), d.opIdx%3))
		}
	case KRemoveEntities:
		b := d.batchOf(op)
		defer d.dropTransient()
		var fn func(ecs.Entity)
		if op.BatchCb {
			fn = d.batchCbEnt(x)
		}
		d.W.RemoveEntities(b, fn)
	case KReset:
		d.W.Reset()
		d.Stat.Resets++
		// handle uniqueness is scoped to "since the last reset"
		d.ByH = map[ecs.Entity]EID{}
		d.foreignMaxID = 0
	case KShrink:
		d.Stat.ShrinkCalls++
		switch op.Sub {
		case 0:
			d.W.Shrink()
		case 1:
			d.W.Shrink(0)
		case 2:
			d.W.Shrink(time.Nanosecond)
		default:
			d.W.Shrink(50 * time.Microsecond)
		}
	case KRegFilter:
		if op.F != nil {
			for len(d.SF) <= op.SF {
				d.SF = append(d.SF, sfilter{})
			}
			d.SF[op.SF] = sfilter{inst: d.buildTyped(op.F), twin: d.buildTyped(op.F)}
			if d.opIdx%2 == 0 {
				// a Batch value derived from the new filter objects with a per-call target, and dropped: it has no effect,
				// but it leaves spare capacity in the filter's relation list - later queries with per-query targets
				// (several of them open at once) must still get lists of their own
				var free []RelT
				fixed := relComps(op.F.Rels)
				for _, c := range d.filterOrder(op.F) {
					if u.Types[c].IsRel && !fixed.Has(c) {
						free = append(free, RelT{C: c, T: ZeroE})
					}
				}
				if len(free) > 0 {
					d.Stat.FilterSpareBatch++
					_ = d.SF[op.SF].inst.Batch(d.rels(free[:1], d.filterOrder(op.F), d.opIdx%3))
					_ = d.SF[op.SF].twin.Batch(d.rels(free[:1], d.filterOrder(op.F), d.opIdx%3))
				}
			}
		}
		d.SF[op.SF].inst.Register()
	case KUnregFilter:
		d.SF[op.SF].inst.Unregister()
	case KRegObs:
		d.regObs(op)
	case KUnregObs:
		d.unregObs(op.Slot)
	case KAddRes:
		if op.Sub == 0 {
			u.Types[op.Slot].AddRes(d.W, op.Vals[0])
		} else {
			d.W.Resources().Add(u.Types[op.Slot].ResID(d.W), u.Types[op.Slot].NewValue(op.Vals[0]))
		}
	case KRemoveRes:
		if op.Sub == 0 {
			u.Types[op.Slot].RemoveRes(d.W)
		} else {
			d.W.Resources().Remove(u.Types[op.Slot].ResID(d.W))
		}
	case KOpenQuery:
		d.openQuery(op)
	case KStepQuery:
		d.stepQuery(op)
	case KCloseQuery:
		d.closeQuery(op)
	case KEmit:
		ev := d.W.Event(d.Custom[op.Ev-EvCustom0])
		if len(op.Add) > 0 {
			ev = ev.For(comps(op.Add)...)
		}
		ev.Emit(d.h(op.E))
	case KStats:
		d.checkStats()
	case KRegType:
		d.regLateType(op)
	case KMisuse:
		d.misuse(op)
	default:
		panic(fmt.Sprintf("exec: unhandled kind %v", op.K))
	}
}

func (d *Drv) dropTransient() {
	if d.transient != nil {
		t := d.transient
		d.transient = nil
		t.Unregister()
	}
}

// bindReturned binds the handle returned by a creation op (or checks it if a callback saw it first).
func (d *Drv) bindReturned(e EID, h ecs.Entity) {
	if int(e) < len(d.H) && !d.H[e].IsZero() {
		if d.H[e] != h {
			d.viol("C09", "create-handle-mismatch", "callback saw %v but creation returned %v", d.H[e], h)
		}
		return
	}
	if old, ok := d.ByH[h]; ok {
		d.viol("C02", "duplicate-handle", "creation returned handle %v already issued for EID %d", h, old)
		return
	}
	d.bind(e, h)
	if d.newAssigned < len(d.cur.NewE) {
		d.newAssigned++
	}
}

// discoverNew finds the handles of batch-created entities that no callback reported.
func (d *Drv) discoverNew(x *Exp) {
	if d.newAssigned >= len(x.NewE) {
		return
	}
	f := ecs.NewFilter0(d.W)
	q := f.Query()
	for q.Next() {
		h := q.Entity()
		if _, ok := d.ByH[h]; !ok {
			if d.newAssigned < len(x.NewE) {
				d.bind(x.NewE[d.newAssigned], h)
				d.newAssigned++
			} else {
				d.viol("C06", "extra-entity", "unexpected extra entity %v after batch creation", h)
			}
		}
	}
	if d.newAssigned < len(x.NewE) {
		d.viol("C06", "missing-entity", "batch creation produced %d of %d entities", d.newAssigned, len(x.NewE))
		// bind placeholders so that later indexing stays in range
		for d.newAssigned < len(x.NewE) {
			e := x.NewE[d.newAssigned]
			for len(d.H) <= int(e) {
				d.H = append(d.H, ecs.Entity{})
			}
			d.newAssigned++
		}
	}
}

// execUnsafe executes op through the ID-based API only, decomposing batches.
func (d *Drv) execUnsafe(op *Op, x *Exp) {
	post := func(e EID) {
		st := x.PostOf(d.M, e)
		h := d.h(e)
		for _, c := range op.Add {
			if u.Types[c].ZeroSize {
				continue
			}
			p := d.U.Get(h, d.ID[c])
			// write the raw value whose canonical form the model expects
			u.Types[c].Enc(p, st.Val[c])
		}
	}
	switch op.K {
	case KNewEntity:
		var h ecs.Entity
		if len(op.Rels) == 0 {
			h = d.U.NewEntity(d.ids(op.Add)...)
		} else {
			h = d.U.NewEntityRel(d.ids(op.Add), d.rels(op.Rels, nil, relByID)...)
		}
		d.bindReturned(x.NewE[0], h)
		post(x.NewE[0])
	case KNewBatch:
		for _, e := range x.NewE {
			var h ecs.Entity
			if len(op.Rels) == 0 {
				h = d.U.NewEntity(d.ids(op.Add)...)
			} else {
				h = d.U.NewEntityRel(d.ids(op.Add), d.rels(op.Rels, nil, relByID)...)
			}
			d.bind(e, h)
			d.newAssigned++
			post(e)
		}
	case KAdd, KRemove, KExchange:
		h := d.h(op.E)
		switch {
		case len(op.Rem) == 0:
			d.U.AddRel(h, d.ids(op.Add), d.rels(op.Rels, nil, relByID)...)
		case len(op.Add) == 0:
			d.U.Remove(h, d.ids(op.Rem)...)
		default:
			d.U.Exchange(h, d.ids(op.Add), d.ids(op.Rem), d.rels(op.Rels, nil, relByID)...)
		}
		post(op.E)
	case KSet, KWrite:
		post(op.E)
	case KSetRel:
		d.U.SetRelations(d.h(op.E), d.rels(op.Rels, nil, relByID)...)
	case KAddBatch, KRemoveBatch, KExchangeBatch:
		for _, e := range x.Sel {
			h := d.h(e)
			switch {
			case len(op.Rem) == 0:
				d.U.AddRel(h, d.ids(op.Add), d.rels(op.Rels, nil, relByID)...)
			case len(op.Add) == 0:
				d.U.Remove(h, d.ids(op.Rem)...)
			default:
				d.U.Exchange(h, d.ids(op.Add), d.ids(op.Rem), d.rels(op.Rels, nil, relByID)...)
			}
			post(e)
		}
	case KSetRelBatch:
		for _, e := range x.Sel {
			d.U.SetRelations(d.h(e), d.rels(op.Rels, nil, relByID)...)
		}
	case KRemoveEntities:
		for _, e := range x.Sel {
			d.W.RemoveEntity(d.h(e))
		}
	case KCopy, KRemoveEntity, KReset, KShrink, KAddRes, KRemoveRes, KStats, KRegType:
		save := d.ForceUnsafe
		d.ForceUnsafe = false
		defer func() { d.ForceUnsafe = save }()
		d.exec(op, x)
	case KRegFilter, KUnregFilter, KRegObs, KUnregObs, KEmit, KOpenQuery, KStepQuery, KCloseQuery, KMisuse:
		// not mirrored in the ID-based twin
	default:
		panic(fmt.Sprintf("execUnsafe: unhandled kind %v", op.K))
	}
}
