package eng

import (
	"runtime"
	"sync"
	"sync/atomic"
	"time"

	u "verifharness/universe"
)

// GCMon tracks every Box allocated by the codecs (C11): which were finalized, and
// whether boxes referenced only by removed components become collectable.
type GCMon struct {
	mu        sync.Mutex
	allocated map[int64]int // value -> boxes allocated
	finalized map[int64]int
	Alloc     atomic.Int64
	Final     atomic.Int64
	stop      chan struct{}
	Churn     atomic.Int64
	epoch     int
}

// NewGCMon installs the box hook.
func NewGCMon() *GCMon {
	g := &GCMon{allocated: map[int64]int{}, finalized: map[int64]int{}, stop: make(chan struct{})}
	u.BoxHook = func(b *u.Box) {
		v := b.V
		g.mu.Lock()
		g.allocated[v]++
		ep := g.epoch
		g.mu.Unlock()
		g.Alloc.Add(1)
		runtime.SetFinalizer(b, func(b *u.Box) {
			g.mu.Lock()
			if ep == g.epoch { // boxes of earlier cases (dropped worlds) reuse the same values
				g.finalized[v]++
			}
			g.mu.Unlock()
			g.Final.Add(1)
		})
	}
	return g
}

// StartChurn keeps the collector busy with a background allocator.
func (g *GCMon) StartChurn() {
	go func() {
		var keep [][]*int64
		for i := 0; ; i++ {
			select {
			case <-g.stop:
				return
			default:
			}
			s := make([]*int64, 64)
			for k := range s {
				x := int64(i + k)
				s[k] = &x
			}
			keep = append(keep, s)
			if len(keep) > 32 {
				keep = keep[16:]
			}
			g.Churn.Add(1)
			if i%8 == 0 {
				runtime.Gosched()
			}
		}
	}()
}

func (g *GCMon) Stop() { close(g.stop) }

// Reset forgets all boxes (between cases; the previous world is dropped).
func (g *GCMon) Reset() {
	g.mu.Lock()
	g.epoch++
	g.allocated = map[int64]int{}
	g.finalized = map[int64]int{}
	g.mu.Unlock()
}

// boxComps are the component types whose pointee is a tracked Box.
var boxComps = []int{u.IPtr, u.IIfc, u.IMix, u.IR2, u.IFn}

// liveValues returns the values the model still references through Box-bearing components / resources.
func liveValues(m *Model) map[int64]bool {
	live := map[int64]bool{}
	for i := m.Epoch0; i < len(m.Ents); i++ {
		e := &m.Ents[i]
		if !e.Alive {
			continue
		}
		for _, c := range boxComps {
			if e.Mask.Has(c) && e.Val[c] != 0 {
				live[e.Val[c]] = true
			}
		}
	}
	for _, c := range boxComps {
		if m.Res.Has(c) && m.ResVal[c] != 0 {
			live[m.ResVal[c]] = true
		}
	}
	return live
}

// Check verifies: no live box was finalized; every orphaned box gets finalized within the round budget.
// Returns (orphans, collected, messages).
func (g *GCMon) Check(m *Model, rounds int) (int, int, []string) {
	live := liveValues(m)
	var msgs []string
	orphans := 0
	pending := func() int {
		g.mu.Lock()
		defer g.mu.Unlock()
		n := 0
		orphans = 0
		for v, a := range g.allocated {
			if live[v] {
				continue
			}
			orphans += a
			n += a - g.finalized[v]
		}
		return n
	}
	left := pending()
	for r := 0; r < rounds && left > 0; r++ {
		runtime.GC()
		time.Sleep(200 * time.Microsecond)
		runtime.Gosched()
		left = pending()
	}
	g.mu.Lock()
	for v := range live {
		// a live value may have several boxes (re-encoded copies); at least one must survive
		if a, f := g.allocated[v], g.finalized[v]; a > 0 && f >= a {
			msgs = append(msgs, "a box still referenced by a live component was finalized (value "+itoa(v)+", "+whereLive(m, v)+")")
		}
	}
	g.mu.Unlock()
	if left > 0 {
		msgs = append(msgs, itoa(int64(left))+" of "+itoa(int64(orphans))+" boxes referenced only by removed components were not collected after "+itoa(int64(rounds))+" GC rounds")
	}
	return orphans, orphans - left, msgs
}

func itoa(v int64) string {
	if v == 0 {
		return "0"
	}
	neg := v < 0
	if neg {
		v = -v
	}
	var b [24]byte
	i := len(b)
	for v > 0 {
		i--
		b[i] = byte('0' + v%10)
		v /= 10
	}
	if neg {
		i--
		b[i] = '-'
	}
	return string(b[i:])
}

func whereLive(m *Model, v int64) string {
	s := ""
	for i := m.Epoch0; i < len(m.Ents); i++ {
		e := &m.Ents[i]
		if !e.Alive {
			continue
		}
		for _, c := range boxComps {
			if e.Mask.Has(c) && e.Val[c] == v {
				s += " EID " + itoa(int64(i)) + "." + u.Types[c].Name
			}
		}
	}
	for _, c := range boxComps {
		if m.Res.Has(c) && m.ResVal[c] == v {
			s += " resource " + u.Types[c].Name
		}
	}
	return s
}
