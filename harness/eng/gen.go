package eng

import (
	"verifharness/typed"
	u "verifharness/universe"
)

// Rng is splitmix64.
type Rng struct{ s uint64 }

func NewRng(seed uint64) *Rng { return &Rng{s: seed} }
func (r *Rng) U64() uint64 {
	r.s += 0x9e3779b97f4a7c15
	z := r.s
	z = (z ^ (z >> 30)) * 0xbf58476d1ce4e5b9
	z = (z ^ (z >> 27)) * 0x94d049bb133111eb
	return z ^ (z >> 31)
}
func (r *Rng) Intn(n int) int {
	if n <= 0 {
		return 0
	}
	return int(r.U64() % uint64(n))
}
func (r *Rng) Chance(pct int) bool { return r.Intn(100) < pct }
func (r *Rng) Perm(n int) []int {
	p := make([]int, n)
	for i := range p {
		p[i] = i
	}
	for i := n - 1; i > 0; i-- {
		j := r.Intn(i + 1)
		p[i], p[j] = p[j], p[i]
	}
	return p
}

// Profile weights op kinds and sets generator limits.
type Profile struct {
	Name               string
	W                  [NKinds]int
	MaxAlive           int
	RelPct             int // chance that a component choice includes relation comps
	TypedPct           int // chance to use a typed path when feasible
	HotComps           int // size of the per-case hot component set
	MaxComps           int // max components per creation
	ObsSlots           int
	FilterSlots        int
	QuerySlots         int
	TargetPool         int // number of entities preferred as relation targets
	DeadTargetQueryPct int
	StaleQueries       bool
	ProbePct           int
	UnregInCbPct       int
	MaxBatchNew        int
	ShrinkLockedOK     bool
	RelObsPct          int             // share of observers that are OnAddRelations observers
	RelBatchPct        int             // share of batch creations with one relation component through Map[T]
	LeakPct            int             // chance that a batch-creation callback opens a query and leaves it open
	NoShrink           bool            // avoid Shrink entirely (known finding avoid rule)
	HotFixed           []int           // if set, the hot component set
	Caps               [][]int         // if set, the NewWorld argument lists to draw from
	DetShrink          bool            // only Shrink() and Shrink(0): time-limited Shrink stops at a wall-clock dependent point
	Avoid              map[string]bool // active avoid rules for known findings
}

// Gen generates ops from the model state.
type Gen struct {
	R         *Rng
	M         *Model
	P         *Profile
	Val       int64
	Hot       []int
	nObsEpoch int
	LateLeft  int
	fill      int
	drain     bool
}

func NewGen(r *Rng, m *Model, p *Profile) *Gen {
	g := &Gen{R: r, M: m, P: p, Val: 1 << 20}
	perm := r.Perm(u.N)
	n := p.HotComps
	if n <= 0 || n > u.N {
		n = u.N
	}
	g.Hot = perm[:n]
	if p.HotFixed != nil {
		g.Hot = append([]int{}, p.HotFixed...)
	}
	// make sure a relation is hot if relations matter
	if p.RelPct > 0 {
		has := false
		for _, c := range g.Hot {
			if u.Types[c].IsRel {
				has = true
			}
		}
		if !has {
			g.Hot[0] = u.RelIdx[r.Intn(3)]
		}
	}
	return g
}

func (g *Gen) val() int64 {
	g.Val += 4096
	return g.Val
}

func (g *Gen) vals(n int) []int64 {
	r := make([]int64, n)
	for i := range r {
		r[i] = g.val()
	}
	return r
}

func (g *Gen) comp() int {
	if g.R.Chance(75) {
		return g.Hot[g.R.Intn(len(g.Hot))]
	}
	return g.R.Intn(u.N)
}

// compsFrom draws up to n distinct comps satisfying ok.
func (g *Gen) compsWhere(n int, ok func(c int) bool) []int {
	var out []int
	var seen CSet
	for tries := 0; tries < 6*n+6 && len(out) < n; tries++ {
		c := g.comp()
		if seen.Has(c) || !ok(c) {
			continue
		}
		if u.Types[c].IsRel && !g.R.Chance(g.P.RelPct) {
			continue
		}
		seen = seen.With(c)
		out = append(out, c)
	}
	return out
}

func (g *Gen) alive() []EID { return g.M.AliveIDs() }

func (g *Gen) pickAlive() (EID, bool) {
	a := g.alive()
	if len(a) == 0 {
		return 0, false
	}
	return a[g.R.Intn(len(a))], true
}

func (g *Gen) pickAliveWhere(ok func(e EID, st *MEnt) bool) (EID, bool) {
	a := g.alive()
	if len(a) == 0 {
		return 0, false
	}
	start := g.R.Intn(len(a))
	for k := 0; k < len(a); k++ {
		e := a[(start+k)%len(a)]
		if ok(e, &g.M.Ents[e]) {
			return e, true
		}
	}
	return 0, false
}

// recycledTwin returns the alive entity that carries the same entity ID as the dead entity d, if any.
func (g *Gen) recycledTwin(d EID) (EID, bool) {
	if int(d) >= len(g.M.HID) || g.M.HID[d] == 0 {
		return 0, false
	}
	for i := len(g.M.Ents) - 1; i >= g.M.Epoch0; i-- {
		if g.M.Ents[i].Alive && i < len(g.M.HID) && g.M.HID[i] == g.M.HID[d] {
			return EID(i), true
		}
	}
	return 0, false
}

// staleTwinFor returns, for relation comp c, an alive entity whose ID was previously held by a dead entity that a
// standing filter still names as fixed target of c (or that was a target recently): the "recycled ID" hazard.
func (g *Gen) staleTwinFor(c int) (EID, bool) {
	for i := range g.M.Filters {
		f := &g.M.Filters[i]
		if !f.Used {
			continue
		}
		for _, r := range f.Spec.Rels {
			if r.C == c && r.T != ZeroE && !g.M.Ents[r.T].Alive {
				if t, ok := g.recycledTwin(r.T); ok {
					return t, true
				}
			}
		}
	}
	return 0, false
}

// recycledAlive picks an alive entity whose ID had an earlier incarnation in this epoch.
func (g *Gen) recycledAlive() (EID, bool) {
	seen := map[uint32]bool{}
	var cands []EID
	for i := g.M.Epoch0; i < len(g.M.Ents) && i < len(g.M.HID); i++ {
		if !g.M.Ents[i].Alive {
			seen[g.M.HID[i]] = true
		}
	}
	for i := g.M.Epoch0; i < len(g.M.Ents) && i < len(g.M.HID); i++ {
		if g.M.Ents[i].Alive && seen[g.M.HID[i]] {
			cands = append(cands, EID(i))
		}
	}
	if len(cands) == 0 {
		return 0, false
	}
	return cands[g.R.Intn(len(cands))], true
}

// target picks a relation target: zero, or an alive entity (biased to a small pool).
func (g *Gen) target(not EID) EID {
	if g.R.Chance(12) {
		return ZeroE
	}
	if g.R.Chance(12) {
		if t, ok := g.recycledAlive(); ok && t != not {
			return t
		}
	}
	a := g.alive()
	if len(a) == 0 {
		return ZeroE
	}
	n := len(a)
	lo := 0
	if g.P.TargetPool > 0 && n > g.P.TargetPool {
		switch x := g.R.Intn(100); {
		case x < 60:
			n = g.P.TargetPool // long-lived targets shared by many children
		case x < 85:
			lo = n - g.P.TargetPool // the youngest entities: these carry recycled IDs
		}
	}
	for k := 0; k < 4; k++ {
		t := a[lo+g.R.Intn(n-lo)]
		if t != not {
			return t
		}
	}
	return ZeroE
}

func (g *Gen) relsFor(cs []int, not EID) []RelT {
	var r []RelT
	for _, c := range cs {
		if u.Types[c].IsRel {
			t := g.target(not)
			if g.R.Chance(25) {
				if tw, ok := g.staleTwinFor(c); ok && tw != not {
					t = tw
				}
			}
			if not >= 0 && int(not) < len(g.M.Ents) && g.M.Ents[not].Alive && g.R.Chance(15) {
				t = not // an entity may be its own relation target
			}
			r = append(r, RelT{C: c, T: t})
		}
	}
	// relation arguments may come in any order
	if len(r) > 1 && g.R.Chance(50) {
		r[0], r[len(r)-1] = r[len(r)-1], r[0]
	}
	return r
}

// tupleWhere picks a typed tuple satisfying ok, or -1.
func (g *Gen) tupleWhere(ok func(t int, cs []int) bool) int {
	n := len(typed.Tuples)
	start := g.R.Intn(n)
	for k := 0; k < n; k++ {
		t := (start + k) % n
		if ok(t, typed.Tuples[t].Comps) {
			return t
		}
	}
	return -1
}

func (g *Gen) fn() int { return g.R.Intn(3) }

// slotsWithOpenQuery returns those of the given standing-filter slots that have an open query.
func (g *Gen) slotsWithOpenQuery(slots []int) []int {
	var out []int
	for _, s := range slots {
		for _, q := range g.M.Queries {
			if q.Open && q.SF == s {
				out = append(out, s)
				break
			}
		}
	}
	return out
}

// filterSpec draws a filter over the current world; typedOnly restricts to kinds usable for batches / registration.
func (g *Gen) filterSpec(typedOnly bool, wantMatch bool) *FSpec {
	f := &FSpec{}
	k := g.R.Intn(3)
	if typedOnly && k == FUnsafe {
		k = FZero
	}
	f.Kind = k
	// base the filter on an existing entity's composition so that it matches something
	var base CSet
	if e, ok := g.pickAlive(); ok && (wantMatch || g.R.Chance(70)) {
		base = g.M.Ents[e].Mask
	}
	if k == FTyped {
		// every arity is separately generated code: choose the arity first, uniformly among those that can match
		byArity := map[int][]int{}
		var arities []int
		for ti := range typed.Tuples {
			cs := typed.Tuples[ti].Comps
			if typed.Tuples[ti].NewFilter != nil && base.Contains(SetOf(cs...)) {
				if len(byArity[len(cs)]) == 0 {
					arities = append(arities, len(cs))
				}
				byArity[len(cs)] = append(byArity[len(cs)], ti)
			}
		}
		t := -1
		if len(arities) > 0 {
			l := byArity[arities[g.R.Intn(len(arities))]]
			t = l[g.R.Intn(len(l))]
		}
		if t < 0 {
			if wantMatch {
				f.Kind = FZero
			} else {
				t = g.tupleWhere(func(t int, cs []int) bool { return typed.Tuples[t].NewFilter != nil })
			}
		}
		f.Tuple = t
	}
	req := f.Required()
	// extra With
	nw := g.R.Intn(3)
	for _, c := range base.Minus(req).List() {
		if nw > 0 && g.R.Chance(50) {
			f.With = append(f.With, c)
			nw--
		}
	}
	if !wantMatch && g.R.Chance(15) {
		c := g.comp()
		if !f.Required().Has(c) {
			f.With = append(f.With, c)
		}
	}
	req = f.Required()
	switch g.R.Intn(5) {
	case 0:
		f.Exclusive = true
	case 1, 2:
		n := 1 + g.R.Intn(2)
		for i := 0; i < n; i++ {
			c := g.comp()
			if !req.Has(c) && (!wantMatch || !base.Has(c)) {
				dup := false
				for _, w := range f.Without {
					if w == c {
						dup = true
					}
				}
				if !dup {
					f.Without = append(f.Without, c)
				}
			}
		}
	}
	return f
}

// relTargetsFor draws relation targets for relation comps required by the filter.
func (g *Gen) relTargetsFor(f *FSpec, exclude CSet, pct int) []RelT {
	var r []RelT
	for _, c := range f.Required().List() {
		if !u.Types[c].IsRel || exclude.Has(c) || !g.R.Chance(pct) {
			continue
		}
		// prefer a target actually in use
		t := ZeroE
		if e, ok := g.pickAliveWhere(func(e EID, st *MEnt) bool { return st.Mask.Has(c) }); ok && g.R.Chance(80) {
			t = g.M.Ents[e].Tgt[c]
		} else {
			t = g.target(-2)
		}
		r = append(r, RelT{C: c, T: t})
	}
	return r
}

func relComps(rs []RelT) CSet {
	var s CSet
	for _, r := range rs {
		s = s.With(r.C)
	}
	return s
}

// standing picks a used standing filter slot, or -1.
func (g *Gen) standing() int {
	var used []int
	for i := range g.M.Filters {
		if g.M.Filters[i].Used {
			used = append(used, i)
		}
	}
	if len(used) == 0 {
		return -1
	}
	return used[g.R.Intn(len(used))]
}

// batchFilter chooses the filter of a batch op: a standing slot (cached or twin), or ad hoc (optionally transiently cached).
// valid reports whether an entity state is a legal input for the op.
func (g *Gen) batchFilter(op *Op, valid func(st *MEnt) bool) bool {
	op.SF = -1
	if s := g.standing(); s >= 0 && g.R.Chance(40) {
		spec := &g.M.Filters[s].Spec
		qr := g.relTargetsFor(spec, relComps(spec.Rels), 30)
		okAll := true
		for _, e := range g.M.Select(spec, qr) {
			if !valid(&g.M.Ents[e]) {
				okAll = false
				break
			}
		}
		if okAll {
			op.SF = s
			op.Cached = g.M.Filters[s].Registered && g.R.Chance(60)
			op.QRels = qr
			return true
		}
	}
	for tries := 0; tries < 6; tries++ {
		f := g.filterSpec(true, tries < 4)
		f.Rels = g.relTargetsFor(f, 0, 25)
		qr := g.relTargetsFor(f, relComps(f.Rels), 25)
		okAll := true
		for _, e := range g.M.Select(f, qr) {
			if !valid(&g.M.Ents[e]) {
				okAll = false
				break
			}
		}
		if okAll {
			op.F = f
			op.QRels = qr
			op.Cached = g.R.Chance(30)
			return true
		}
	}
	return false
}

// leakKinds are the ops whose after-event observer callbacks may leave a query open (Op.Leak): the events fire
// when the operation's structural work is complete.
var leakKinds = map[Kind]bool{KNewEntity: true, KAdd: true, KExchange: true, KSet: true, KSetRel: true, KCopy: true,
	KAddBatch: true, KExchangeBatch: true, KSetRelBatch: true, KEmit: true}

func (g *Gen) anyPostObserver() bool {
	for i := range g.M.Obs {
		if g.M.Obs[i].Registered && !g.M.Obs[i].Spec.Ev.IsBefore() {
			return true
		}
	}
	return false
}

// Next generates the next op.
func (g *Gen) Next() *Op {
	// lock-discipline phases: open up to 64 queries, then close them in a random permutation
	if g.P.QuerySlots >= 64 {
		if g.fill == 0 && !g.drain && g.M.Locks == 0 && g.R.Chance(4) {
			g.fill = []int{2, 5, 17, 33, 63, 64, 64}[g.R.Intn(7)]
		}
		if g.fill > 0 {
			if g.M.Locks >= g.fill {
				g.fill = 0
				g.drain = true
			} else if g.R.Chance(85) {
				if op := g.make(KOpenQuery); op != nil {
					return op
				}
			}
		}
		if g.drain {
			if g.M.Locks == 0 {
				g.drain = false
			} else if g.R.Chance(70) {
				k := KCloseQuery
				if g.R.Chance(30) {
					k = KStepQuery
				}
				if op := g.make(k); op != nil {
					return op
				}
			}
		}
	}
	// now and then one more component type is registered (only while unlocked): typed wrappers created earlier
	// must keep working with tables created afterwards, also across 64-ID boundaries
	if g.LateLeft > 0 && g.M.Locks == 0 && g.R.Chance(3) {
		g.LateLeft--
		return &Op{K: KRegType, SF: -1, Tuple: -1, E: ZeroE, N: g.M.Late}
	}
	for tries := 0; tries < 50; tries++ {
		k := g.pickKind()
		if op := g.make(k); op != nil {
			if op.Leak == nil && leakKinds[k] && g.P.LeakPct > 0 && g.M.Locks == 0 && g.anyPostObserver() && g.R.Chance(g.P.LeakPct) {
				// a query opened inside the first after-event observer callback of this op and left open
				op.Leak = g.make(KOpenQuery)
			}
			return op
		}
	}
	if g.M.Locks > 0 {
		// close something
		for s := range g.M.Queries {
			if g.M.Queries[s].Open {
				return &Op{K: KCloseQuery, Slot: s, SF: -1}
			}
		}
	}
	return &Op{K: KNewEntity, Path: PUnsafe, SF: -1}
}

var lockedOK = map[Kind]bool{KSet: true, KWrite: true, KOpenQuery: true, KStepQuery: true, KCloseQuery: true, KEmit: true,
	KStats: true, KMisuse: true, KRegFilter: true, KUnregFilter: true, KRegObs: true, KUnregObs: true, KAddRes: true, KRemoveRes: true}

func (g *Gen) pickKind() Kind {
	total := 0
	locked := g.M.Locks > 0
	w := func(k Kind) int {
		x := g.P.W[k]
		if locked {
			if !lockedOK[k] && !(k == KShrink && g.P.ShrinkLockedOK) {
				return 0
			}
			if k == KStepQuery || k == KCloseQuery {
				x *= 4
			}
		}
		if g.M.NAlive > g.P.MaxAlive && (k == KNewEntity || k == KNewBatch || k == KCopy) {
			return 0
		}
		return x
	}
	for k := Kind(0); k < NKinds; k++ {
		total += w(k)
	}
	if total == 0 {
		return KNewEntity
	}
	x := g.R.Intn(total)
	for k := Kind(0); k < NKinds; k++ {
		x -= w(k)
		if x < 0 {
			return k
		}
	}
	return KNewEntity
}

func (g *Gen) make(k Kind) *Op {
	op := &Op{K: k, SF: -1, Tuple: -1, E: ZeroE}
	R := g.R
	P := g.P
	switch k {
	case KNewEntity, KNewBatch:
		if k == KNewBatch {
			op.N = 1 + R.Intn(P.MaxBatchNew)
			if R.Chance(5) {
				op.N = 60 + R.Intn(80) // across the 64-row boundary
			} else if R.Chance(3) {
				op.N = 0 // an empty batch creates nothing and calls nothing
			}
			op.BatchCb = R.Chance(50)
		}
		op.Fn = g.fn()
		if R.Chance(P.TypedPct) {
			t := g.tupleWhere(func(t int, cs []int) bool {
				return len(cs) <= P.MaxComps+4 && (P.RelPct > 0 || !SetOf(cs...).Intersects(RelMask))
			})
			if t >= 0 {
				op.Path = PTMap
				op.Tuple = t
				op.Add = append([]int{}, TupleComps(t)...)
			}
		}
		if op.Tuple < 0 {
			n := R.Intn(P.MaxComps + 1)
			op.Add = g.compsWhere(n, func(int) bool { return true })
			op.Path = PUnsafe
			if len(op.Add) == 1 && R.Chance(50) {
				op.Path = PMap1
			}
			if op.Path == PUnsafe {
				op.Sub = R.Intn(3)
				if k == KNewBatch {
					// World.NewEntities creates component-less entities only
					op.Add = nil
				}
			}
		}
		if k == KNewBatch && P.RelBatchPct > 0 && R.Chance(P.RelBatchPct) {
			// a batch of entities with a single relation component through Map[T]
			op.Tuple = -1
			op.Path = PMap1
			op.Add = []int{u.RelIdx[R.Intn(3)]}
		}
		op.Vals = g.vals(len(op.Add))
		op.Rels = g.relsFor(op.Add, -2)
		if k == KNewBatch && P.LeakPct > 0 && R.Chance(P.LeakPct) {
			// a query opened inside the creation callback and left open past the operation
			op.Leak = g.make(KOpenQuery)
		}
	case KAdd:
		e, ok := g.pickAlive()
		if !ok {
			return nil
		}
		op.E = e
		mask := g.M.Ents[e].Mask
		op.Fn = g.fn()
		if R.Chance(P.TypedPct) {
			t := g.tupleWhere(func(t int, cs []int) bool {
				return !mask.Intersects(SetOf(cs...)) && (P.RelPct > 0 || !SetOf(cs...).Intersects(RelMask))
			})
			if t >= 0 {
				op.Tuple = t
				op.Add = append([]int{}, TupleComps(t)...)
				op.Path = PTMap
				if typed.Tuples[t].NewExch != nil && R.Chance(35) {
					op.Path = PTExch
				}
			}
		}
		if op.Tuple < 0 {
			op.Add = g.compsWhere(1+R.Intn(3), func(c int) bool { return !mask.Has(c) })
			if len(op.Add) == 0 {
				return nil
			}
			op.Path = PUnsafe
			op.Sub = R.Intn(3)
			if len(op.Add) == 1 && R.Chance(50) {
				op.Path = PMap1
			}
		}
		op.Vals = g.vals(len(op.Add))
		op.Rels = g.relsFor(op.Add, e)
	case KRemove:
		e, ok := g.pickAliveWhere(func(e EID, st *MEnt) bool { return st.Mask != 0 })
		if !ok {
			return nil
		}
		op.E = e
		mask := g.M.Ents[e].Mask
		if R.Chance(P.TypedPct) {
			t := g.tupleWhere(func(t int, cs []int) bool { return mask.Contains(SetOf(cs...)) })
			if t >= 0 {
				op.Tuple = t
				op.Rem = append([]int{}, TupleComps(t)...)
				op.Path = PTMap
			}
		}
		if op.Tuple < 0 {
			l := mask.List()
			p := R.Perm(len(l))
			n := 1 + R.Intn(min(3, len(l)))
			for i := 0; i < n; i++ {
				op.Rem = append(op.Rem, l[p[i]])
			}
			op.Path = PUnsafe
			switch {
			case len(op.Rem) == 1 && R.Chance(40):
				op.Path = PMap1
			case R.Chance(30):
				op.Path = PTExch
				op.Tuple = g.tupleWhere(func(t int, cs []int) bool { return typed.Tuples[t].NewExch != nil })
			}
		}
	case KExchange:
		e, ok := g.pickAliveWhere(func(e EID, st *MEnt) bool { return st.Mask != 0 })
		if !ok {
			return nil
		}
		op.E = e
		mask := g.M.Ents[e].Mask
		l := mask.List()
		p := R.Perm(len(l))
		n := 1 + R.Intn(min(2, len(l)))
		for i := 0; i < n; i++ {
			op.Rem = append(op.Rem, l[p[i]])
		}
		op.Fn = g.fn()
		if R.Chance(P.TypedPct) {
			t := g.tupleWhere(func(t int, cs []int) bool {
				return typed.Tuples[t].NewExch != nil && !mask.Intersects(SetOf(cs...)) && (P.RelPct > 0 || !SetOf(cs...).Intersects(RelMask))
			})
			if t >= 0 {
				op.Tuple = t
				op.Path = PTExch
				op.Add = append([]int{}, TupleComps(t)...)
				if R.Chance(15) {
					op.Rem = nil // Exchange without Removes is an add
				}
			}
		}
		if op.Tuple < 0 {
			op.Path = PUnsafe
			op.Add = g.compsWhere(R.Intn(3), func(c int) bool { return !mask.Has(c) })
			if len(op.Add) == 0 && R.Chance(50) {
				// pure removal through Exchange
			}
		}
		op.Vals = g.vals(len(op.Add))
		op.Rels = g.relsFor(op.Add, e)
	case KSet, KWrite:
		e, ok := g.pickAliveWhere(func(e EID, st *MEnt) bool { return st.Mask != 0 })
		if !ok {
			return nil
		}
		op.E = e
		mask := g.M.Ents[e].Mask
		if R.Chance(P.TypedPct) {
			t := g.tupleWhere(func(t int, cs []int) bool { return mask.Contains(SetOf(cs...)) })
			if t >= 0 {
				op.Tuple = t
				op.Add = append([]int{}, TupleComps(t)...)
				op.Path = PTMap
			}
		}
		if op.Tuple < 0 {
			l := mask.List()
			op.Add = []int{l[R.Intn(len(l))]}
			op.Path = PMap1
			if k == KWrite {
				if R.Chance(50) {
					op.Path = PUnsafe
				}
				if len(l) > 1 && R.Chance(40) {
					c2 := l[R.Intn(len(l))]
					if c2 != op.Add[0] {
						op.Add = append(op.Add, c2)
					}
				}
			}
		}
		op.Sub = R.Intn(2)
		op.Vals = g.vals(len(op.Add))
	case KSetRel:
		e, ok := g.pickAliveWhere(func(e EID, st *MEnt) bool { return st.Mask.Intersects(RelMask) })
		if !ok {
			return nil
		}
		op.E = e
		mask := g.M.Ents[e].Mask
		rl := relsOf(mask).List()
		if R.Chance(P.TypedPct) {
			t := g.tupleWhere(func(t int, cs []int) bool {
				s := SetOf(cs...)
				return mask.Contains(s) && s.Intersects(RelMask)
			})
			if t >= 0 {
				op.Tuple = t
				op.Path = PTMap
				rl = relsOf(SetOf(TupleComps(t)...)).List()
			}
		}
		n := 1 + R.Intn(len(rl))
		p := R.Perm(len(rl))
		for i := 0; i < n; i++ {
			c := rl[p[i]]
			t := g.target(e)
			if t == g.M.Ents[e].Tgt[c] && !R.Chance(20) {
				t = g.target(e)
			}
			op.Rels = append(op.Rels, RelT{C: c, T: t})
		}
		if op.Tuple < 0 {
			op.Path = PUnsafe
			if len(op.Rels) == 1 && R.Chance(50) {
				op.Path = PMap1
			}
		}
	case KCopy:
		e, ok := g.pickAlive()
		if !ok {
			return nil
		}
		op.E = e
	case KRemoveEntity:
		e, ok := g.pickAlive()
		if !ok {
			return nil
		}
		// bias towards entities that are relation targets
		if R.Chance(40) {
			a := g.alive()
			n := len(a)
			if P.TargetPool > 0 && n > P.TargetPool {
				n = P.TargetPool
			}
			e = a[R.Intn(n)]
		}
		op.E = e
	case KAddBatch:
		op.Fn = g.fn()
		// choose components first, then a filter whose selection lacks all of them
		if R.Chance(P.TypedPct + 30) {
			t := g.tupleWhere(func(t int, cs []int) bool {
				return len(cs) <= 4 && (P.RelPct > 0 || !SetOf(cs...).Intersects(RelMask))
			})
			op.Tuple = t
			op.Add = append([]int{}, TupleComps(t)...)
			op.Path = PTMap
			if typed.Tuples[t].NewExch != nil && R.Chance(35) {
				op.Path = PTExch
			}
		} else {
			op.Add = g.compsWhere(1, func(int) bool { return true })
			if len(op.Add) == 0 {
				return nil
			}
			op.Path = PMap1
		}
		add := SetOf(op.Add...)
		if !g.batchFilter(op, func(st *MEnt) bool { return !st.Mask.Intersects(add) }) {
			return nil
		}
		op.Vals = g.vals(len(op.Add))
		op.Rels = g.relsFor(op.Add, -2)
	case KRemoveBatch:
		op.BatchCb = R.Chance(60)
		e, ok := g.pickAliveWhere(func(e EID, st *MEnt) bool { return st.Mask != 0 })
		if !ok {
			return nil
		}
		mask := g.M.Ents[e].Mask
		if R.Chance(P.TypedPct) {
			t := g.tupleWhere(func(t int, cs []int) bool { return mask.Contains(SetOf(cs...)) })
			if t >= 0 {
				op.Tuple = t
				op.Rem = append([]int{}, TupleComps(t)...)
				op.Path = PTMap
			}
		}
		if op.Tuple < 0 {
			l := mask.List()
			op.Rem = []int{l[R.Intn(len(l))]}
			op.Path = PMap1
			if R.Chance(40) {
				if len(l) > 1 && l[0] != op.Rem[0] {
					op.Rem = append(op.Rem, l[0])
				}
				op.Path = PTExch
				op.Tuple = g.tupleWhere(func(t int, cs []int) bool { return typed.Tuples[t].NewExch != nil })
			}
		}
		rem := SetOf(op.Rem...)
		if !g.batchFilter(op, func(st *MEnt) bool { return st.Mask.Contains(rem) }) {
			return nil
		}
	case KExchangeBatch:
		op.Fn = g.fn()
		e, ok := g.pickAliveWhere(func(e EID, st *MEnt) bool { return st.Mask != 0 })
		if !ok {
			return nil
		}
		mask := g.M.Ents[e].Mask
		l := mask.List()
		op.Rem = []int{l[R.Intn(len(l))]}
		t := g.tupleWhere(func(t int, cs []int) bool {
			return typed.Tuples[t].NewExch != nil && len(cs) <= 4 && !mask.Intersects(SetOf(cs...)) && (P.RelPct > 0 || !SetOf(cs...).Intersects(RelMask))
		})
		if t < 0 {
			return nil
		}
		op.Tuple = t
		op.Path = PTExch
		op.Add = append([]int{}, TupleComps(t)...)
		add, rem := SetOf(op.Add...), SetOf(op.Rem...)
		if !g.batchFilter(op, func(st *MEnt) bool { return st.Mask.Contains(rem) && !st.Mask.Intersects(add) }) {
			return nil
		}
		op.Vals = g.vals(len(op.Add))
		op.Rels = g.relsFor(op.Add, -2)
	case KSetRelBatch:
		op.BatchCb = R.Chance(60)
		e, ok := g.pickAliveWhere(func(e EID, st *MEnt) bool { return st.Mask.Intersects(RelMask) })
		if !ok {
			return nil
		}
		mask := g.M.Ents[e].Mask
		rl := relsOf(mask).List()
		c := rl[R.Intn(len(rl))]
		op.Path = PMap1
		op.Rels = []RelT{{C: c, T: g.target(-2)}}
		if R.Chance(P.TypedPct) {
			t := g.tupleWhere(func(t int, cs []int) bool {
				s := SetOf(cs...)
				return mask.Contains(s) && s.Has(c)
			})
			if t >= 0 {
				op.Tuple = t
				op.Path = PTMap
				for _, c2 := range relsOf(SetOf(TupleComps(t)...)).List() {
					if c2 != c && R.Chance(50) {
						op.Rels = append(op.Rels, RelT{C: c2, T: g.target(-2)})
					}
				}
			}
		}
		need := relComps(op.Rels)
		if op.Tuple >= 0 {
			need |= SetOf(TupleComps(op.Tuple)...) & 0 // mapper comps need not be present; only the relation comps named
		}
		if !g.batchFilter(op, func(st *MEnt) bool { return st.Mask.Contains(need) }) {
			return nil
		}
	case KRemoveEntities:
		op.BatchCb = R.Chance(60)
		if g.M.NAlive == 0 {
			return nil
		}
		if !g.batchFilter(op, func(st *MEnt) bool { return true }) {
			return nil
		}
		if P.Avoid["F3"] {
			// avoid rule: no batch that kills two targets of one surviving entity
			f := g.M.filterOf(op)
			dead := map[EID]bool{}
			for _, e := range g.M.Select(f, op.QRels) {
				dead[e] = true
			}
			for _, e := range g.alive() {
				if dead[e] {
					continue
				}
				n := 0
				st := &g.M.Ents[e]
				for _, c := range relsOf(st.Mask).List() {
					if st.Tgt[c] != ZeroE && dead[st.Tgt[c]] {
						n++
					}
				}
				if n > 1 {
					return nil
				}
			}
		}
	case KReset:
	case KShrink:
		if P.NoShrink {
			return nil
		}
		op.Sub = R.Intn(4)
		if P.DetShrink {
			op.Sub = R.Intn(2)
		}
	case KRegFilter:
		// (re-)register an existing slot or create a new one
		var free, unreg []int
		for i := 0; i < P.FilterSlots; i++ {
			if i >= len(g.M.Filters) || !g.M.Filters[i].Used {
				free = append(free, i)
			} else if !g.M.Filters[i].Registered {
				unreg = append(unreg, i)
			}
		}
		// a filter whose registration state changes while one of its queries is open is the interesting case: the
		// query must go on with what it had when it was created
		if wo := g.slotsWithOpenQuery(unreg); len(wo) > 0 && R.Chance(60) {
			op.SF = wo[R.Intn(len(wo))]
			break
		}
		switch {
		case len(unreg) > 0 && R.Chance(50):
			op.SF = unreg[R.Intn(len(unreg))]
		case len(free) > 0:
			op.SF = free[0]
			op.F = g.filterSpec(true, R.Chance(60))
			op.F.Rels = g.relTargetsFor(op.F, 0, 35)
		case len(unreg) > 0:
			op.SF = unreg[R.Intn(len(unreg))]
		default:
			// replace a slot: only if not registered
			return nil
		}
	case KUnregFilter:
		var reg []int
		for i := range g.M.Filters {
			if g.M.Filters[i].Registered {
				reg = append(reg, i)
			}
		}
		if len(reg) == 0 {
			return nil
		}
		op.SF = reg[R.Intn(len(reg))]
		if wo := g.slotsWithOpenQuery(reg); len(wo) > 0 && R.Chance(60) {
			op.SF = wo[R.Intn(len(wo))]
		}
		if P.Avoid["F11"] {
			for _, q := range g.M.Queries {
				if q.Open && q.SF == op.SF && q.Cached {
					return nil
				}
			}
		}
	case KRegObs:
		if P.ObsSlots == 0 {
			return nil
		}
		var free, unreg []int
		for i := 0; i < P.ObsSlots; i++ {
			if i >= len(g.M.Obs) || !g.M.Obs[i].Used {
				free = append(free, i)
			} else if !g.M.Obs[i].Registered {
				unreg = append(unreg, i)
			}
		}
		switch {
		case len(unreg) > 0 && R.Chance(40):
			op.Slot = unreg[R.Intn(len(unreg))]
		case len(free) > 0:
			op.Slot = free[0]
			op.Obs = g.obsSpec()
		case len(unreg) > 0:
			// replace with a new spec
			op.Slot = unreg[R.Intn(len(unreg))]
			op.Obs = g.obsSpec()
		default:
			return nil
		}
	case KUnregObs:
		var reg []int
		for i := range g.M.Obs {
			if g.M.Obs[i].Registered {
				reg = append(reg, i)
			}
		}
		if len(reg) == 0 {
			return nil
		}
		op.Slot = reg[R.Intn(len(reg))]
	case KAddRes:
		c := R.Intn(u.N)
		if g.M.Res.Has(c) {
			return nil
		}
		op.Slot = c
		op.Vals = g.vals(1)
		op.Sub = R.Intn(2)
	case KRemoveRes:
		l := g.M.Res.List()
		if len(l) == 0 {
			return nil
		}
		op.Slot = l[R.Intn(len(l))]
		op.Sub = R.Intn(2)
	case KOpenQuery:
		slot := -1
		for i := 0; i < P.QuerySlots; i++ {
			if i >= len(g.M.Queries) || !g.M.Queries[i].Open {
				slot = i
				break
			}
		}
		if slot < 0 {
			return nil
		}
		op.Slot = slot
		// bias: a further query from a filter object that already has a query open, with one per-query target that
		// differs from the open one's (overlapping queries of one filter must not share their relation arguments)
		for i := range g.M.Queries {
			q := &g.M.Queries[i]
			if !q.Open || q.SF < 0 || !g.M.Filters[q.SF].Used || (q.Cached && !g.M.Filters[q.SF].Registered) || !R.Chance(60) {
				continue
			}
			spec := &g.M.Filters[q.SF].Spec
			qr := g.aliveRels(g.relTargetsFor(spec, relComps(spec.Rels), 100))
			if len(qr) == 0 {
				continue
			}
			one := qr[R.Intn(len(qr))]
			for _, o := range q.QRels {
				if o.C == one.C && o.T == one.T {
					one.T = g.target(-2)
				}
			}
			qr = g.aliveRels([]RelT{one})
			if len(qr) != 1 {
				continue
			}
			op.SF = q.SF
			op.Cached = q.Cached
			op.QRels = qr
			return op
		}
		if s := g.standing(); s >= 0 && R.Chance(40) {
			op.SF = s
			op.Cached = g.M.Filters[s].Registered && R.Chance(60)
			spec := &g.M.Filters[s].Spec
			op.QRels = g.aliveRels(g.relTargetsFor(spec, relComps(spec.Rels), 50))
		} else {
			op.F = g.filterSpec(false, R.Chance(70))
			if op.F.Kind != FUnsafe {
				op.F.Rels = g.aliveRels(g.relTargetsFor(op.F, 0, 25))
			}
			op.QRels = g.aliveRels(g.relTargetsFor(op.F, relComps(op.F.Rels), 25))
		}
	case KStepQuery, KCloseQuery:
		var open []int
		for i := range g.M.Queries {
			if g.M.Queries[i].Open {
				open = append(open, i)
			}
		}
		if len(open) == 0 {
			return nil
		}
		op.Slot = open[R.Intn(len(open))]
		if k == KStepQuery {
			op.N = 1 + R.Intn(6)
			if R.Chance(25) {
				op.N = 1000 // run to exhaustion
			}
		} else {
			op.Sub = R.Intn(2)
		}
	case KEmit:
		op.Ev = EvCustom0 + EvType(R.Intn(2))
		if R.Chance(15) {
			op.E = ZeroE
		} else {
			e, ok := g.pickAlive()
			if !ok {
				return nil
			}
			op.E = e
			l := g.M.Ents[e].Mask.List()
			n := R.Intn(3)
			p := R.Perm(len(l))
			for i := 0; i < n && i < len(l); i++ {
				op.Add = append(op.Add, l[p[i]])
			}
		}
	case KStats:
	case KMisuse:
		return g.misuseOp()
	case KDumpLoad:
		return nil
	}
	return op
}

// aliveRels keeps only targets that are alive or zero (typed query creation panics on dead targets).
func (g *Gen) aliveRels(rs []RelT) []RelT {
	var out []RelT
	for _, r := range rs {
		if r.T == ZeroE || g.M.Ents[r.T].Alive {
			out = append(out, r)
		}
	}
	return out
}

func (g *Gen) obsSpec() *ObsSpec {
	R := g.R
	o := &ObsSpec{Tuple: -1, UnregOther: -1}
	o.Ev = EvType(R.Intn(int(NEv)))
	if g.P.RelObsPct > 0 && R.Chance(g.P.RelObsPct) {
		o.Ev = EvAddRel // relation observers without a creation observer next to them are a lock path of their own
	}
	relEv := o.Ev == EvAddRel || o.Ev == EvRemoveRel
	if R.Chance(g.P.TypedPct) {
		// mostly arities 1 and 2 (they fire often enough to be judged both ways), every fourth typed observer any arity
		maxArity := 2
		if R.Chance(25) {
			maxArity = 4
		}
		t := g.tupleWhere(func(t int, cs []int) bool {
			if typed.Tuples[t].NewObs == nil || len(cs) > maxArity {
				return false
			}
			s := SetOf(cs...)
			if relEv {
				return s.Minus(RelMask) == 0
			}
			return true
		})
		if t >= 0 {
			o.Tuple = t
		}
	}
	// observed comps: mostly none or one, so that observers fire often enough to be judged both ways
	n := []int{0, 0, 0, 0, 1, 1, 1, 1, 1, 2}[R.Intn(10)]
	if o.Tuple >= 0 {
		n = []int{0, 0, 0, 1}[R.Intn(4)]
	}
	for i := 0; i < n; i++ {
		c := g.comp()
		if relEv && !u.Types[c].IsRel {
			c = u.RelIdx[R.Intn(3)]
		}
		if !o.AllComps().Has(c) {
			o.Comps = append(o.Comps, c)
		}
	}
	nw := []int{0, 0, 0, 0, 0, 1, 1, 1, 1, 2}[R.Intn(10)]
	for i := 0; i < nw; i++ {
		c := g.comp()
		if !SetOf(o.With...).Has(c) {
			o.With = append(o.With, c)
		}
	}
	switch R.Intn(8) {
	case 0:
		o.Exclusive = true
	case 1, 2:
		c := g.comp()
		if !SetOf(o.With...).Has(c) {
			o.Without = append(o.Without, c)
		}
	}
	o.Probe = R.Chance(g.P.ProbePct)
	if R.Chance(g.P.UnregInCbPct) {
		if R.Chance(50) {
			o.UnregSelf = true
		} else {
			o.UnregOther = R.Intn(max(1, g.P.ObsSlots))
			if R.Chance(50) {
				// ... and a new observer takes a free slot in the same callback
				o.RegNext = 1 + R.Intn(max(1, g.P.ObsSlots))
			}
		}
	} else if g.P.UnregInCbPct > 0 && R.Chance(g.P.UnregInCbPct/2) {
		o.RegNext = 1 + R.Intn(max(1, g.P.ObsSlots))
	}
	return o
}

func (g *Gen) misuseOp() *Op {
	R := g.R
	op := &Op{K: KMisuse, SF: -1, Tuple: -1, E: ZeroE}
	locked := g.M.Locks > 0
	// choose a row
	var rows []int
	for i, mc := range MisuseTable {
		isLocked := mc.Class == "locked" || mc.Class == "lockedrel"
		// rows that only work with query and filter objects are also run while other queries are open: a lock bit they
		// release twice, or fail to release, then belongs to somebody else
		both := mc.Class == "debugguardN" || mc.Class == "badquery" || mc.Class == "filterstate"
		if isLocked != locked && !(both && locked) {
			continue
		}
		rows = append(rows, i)
	}
	if len(rows) == 0 {
		return nil
	}
	op.Slot = rows[R.Intn(len(rows))]
	mc := &MisuseTable[op.Slot]
	op.Sub = R.Intn(NStale)
	op.N = R.Intn(1 << 16)
	switch mc.Class {
	case "stale":
	case "dup":
		e, ok := g.pickAliveWhere(func(e EID, st *MEnt) bool { return st.Mask != 0 && st.Mask.Len() < u.N })
		if !ok {
			return nil
		}
		op.E = e
		st := &g.M.Ents[e]
		l := st.Mask.List()
		op.Add = []int{l[R.Intn(len(l))]}
		for _, c := range R.Perm(u.N) {
			if !st.Mask.Has(c) && !u.Types[c].IsRel {
				op.Rem = []int{c}
				break
			}
		}
		if len(op.Rem) == 0 {
			return nil
		}
		op.Sub = 0
	case "missing":
		e, ok := g.pickAliveWhere(func(e EID, st *MEnt) bool { return st.Mask.Len() < u.N })
		if !ok {
			return nil
		}
		op.E = e
		st := &g.M.Ents[e]
		for _, c := range R.Perm(u.N) {
			if !st.Mask.Has(c) {
				op.Rem = []int{c}
				break
			}
		}
		op.Sub = 0
	case "debugguard":
		// an entity with at least one component, lacking all relation components and one more component
		e, ok := g.pickAliveWhere(func(e EID, st *MEnt) bool {
			return st.Mask != 0 && !st.Mask.Intersects(RelMask) && st.Mask.Len() < u.N-3
		})
		if !ok {
			return nil
		}
		op.E = e
		st := &g.M.Ents[e]
		op.Add = st.Mask.List()
		for _, c := range R.Perm(u.N) {
			if !st.Mask.Has(c) && !u.Types[c].IsRel {
				op.Rem = []int{c}
				break
			}
		}
		op.Sub = 0
	case "badquery":
		// a typed tuple (any arity 1..8) with a relation component
		byArity := map[int][]int{}
		var ar []int
		for ti := range typed.Tuples {
			cs := typed.Tuples[ti].Comps
			if typed.Tuples[ti].NewFilter != nil && SetOf(cs...).Intersects(RelMask) {
				if len(byArity[len(cs)]) == 0 {
					ar = append(ar, len(cs))
				}
				byArity[len(cs)] = append(byArity[len(cs)], ti)
			}
		}
		l := byArity[ar[R.Intn(len(ar))]]
		op.Tuple = l[R.Intn(len(l))]
		op.Sub = R.Intn(3)
	case "debugguardN":
		e, ok := g.pickAliveWhere(func(e EID, st *MEnt) bool { return st.Mask.Len() >= 1 })
		if !ok {
			return nil
		}
		op.E = e
		mask := g.M.Ents[e].Mask
		// uniform over the arities that fit
		byArity := map[int][]int{}
		var ar []int
		// in a third of the cases any tuple will do: the query is then (mostly) empty, which is all the rows about
		// finished queries need, and the high arities - which hardly any entity covers - get their share
		anyTuple := R.Chance(35)
		for ti := range typed.Tuples {
			cs := typed.Tuples[ti].Comps
			if typed.Tuples[ti].NewFilter != nil && (anyTuple || mask.Contains(SetOf(cs...))) {
				if len(byArity[len(cs)]) == 0 {
					ar = append(ar, len(cs))
				}
				byArity[len(cs)] = append(byArity[len(cs)], ti)
			}
		}
		if len(ar) == 0 {
			return nil
		}
		l := byArity[ar[R.Intn(len(ar))]]
		op.Tuple = l[R.Intn(len(l))]
		op.Sub = 0
	case "empty":
		e, ok := g.pickAlive()
		if !ok {
			return nil
		}
		op.E = e
		op.Sub = 0
	case "noreltarget", "deadtarget":
		e, ok := g.pickAliveWhere(func(e EID, st *MEnt) bool { return relsOf(st.Mask) != RelMask && st.Mask.Minus(RelMask) != 0 })
		if !ok {
			return nil
		}
		op.E = e
		st := &g.M.Ents[e]
		for _, c := range R.Perm(3) {
			if !st.Mask.Has(u.RelIdx[c]) {
				op.Add = []int{u.RelIdx[c]}
			}
		}
		l := st.Mask.Minus(RelMask).List()
		op.Rem = []int{l[R.Intn(len(l))]}
		if mc.Class == "noreltarget" {
			op.Sub = 0
		} else {
			op.Sub = R.Intn(3)
		}
	case "deadtarget2", "lockedrel":
		e, ok := g.pickAliveWhere(func(e EID, st *MEnt) bool { return st.Mask.Intersects(RelMask) })
		if !ok {
			return nil
		}
		op.E = e
		l := relsOf(g.M.Ents[e].Mask).List()
		op.Rem = []int{l[R.Intn(len(l))]}
		op.Sub = R.Intn(3)
		if mc.Class == "lockedrel" {
			op.Sub = 0
		}
	case "locked":
		e, ok := g.pickAliveWhere(func(e EID, st *MEnt) bool { return st.Mask != 0 && st.Mask.Len() < u.N-3 })
		if !ok {
			return nil
		}
		op.E = e
		st := &g.M.Ents[e]
		l := st.Mask.List()
		op.Rem = []int{l[R.Intn(len(l))]}
		for _, c := range R.Perm(u.N) {
			if !st.Mask.Has(c) && !u.Types[c].IsRel {
				op.Add = []int{c}
				break
			}
		}
		op.Sub = 0
	}
	return op
}
