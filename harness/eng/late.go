package eng

import (
	"fmt"
	"os"
	"unsafe"

	"github.com/mlange-42/ark/ecs"
)

// lateC is a family of component types registered in mid-history (KRegType), one per type argument. They are generic
// types, so that the typed API (Map1, Filter1/Query1) can be used with them, whose lookups go through the
// per-component column index that registration sets up.
type lateC[T any] struct{ V int64 }

// lateType is one member of the family.
type lateType struct {
	// register registers the type (through NewMap1, as a program would) and returns its ID
	register func(d *Drv) ecs.ID
	// has reports Map1.Has for an alive entity
	has func(d *Drv, h ecs.Entity) bool
	// probe uses the type at once: nobody has it, a query finds nothing; then (roundTrip) up to three entities get it, are
	// found by a query and lose it again
	probe func(d *Drv, id ecs.ID, cands []EID, roundTrip bool)
}

func mkLate[T any](n int) lateType {
	mapOf := func(d *Drv) *ecs.Map1[lateC[T]] {
		if m, ok := d.lateMaps[n]; ok {
			return m.(*ecs.Map1[lateC[T]])
		}
		m := ecs.NewMap1[lateC[T]](d.W)
		if d.lateMaps == nil {
			d.lateMaps = map[int]any{}
		}
		d.lateMaps[n] = m
		return m
	}
	return lateType{
		register: func(d *Drv) ecs.ID {
			mapOf(d)
			return ecs.ComponentID[lateC[T]](d.W)
		},
		has: func(d *Drv, h ecs.Entity) bool { return mapOf(d).HasAll(h) || ecs.NewMap[lateC[T]](d.W).Has(h) },
		probe: func(d *Drv, id ecs.ID, cands []EID, roundTrip bool) {
			mp := mapOf(d)
			m1 := ecs.NewMap[lateC[T]](d.W)
			for _, e := range cands {
				h := d.H[e]
				if mp.HasAll(h) || m1.Has(h) || d.U.Has(h, id) || mp.Get(h) != nil || m1.Get(h) != nil {
					d.viol("C18", "late-type-has", "EID %d: Map1.HasAll=%v Map.Has=%v Unsafe.Has=%v Map1.Get=%p for component %v that was registered just now", e, mp.HasAll(h), m1.Has(h), d.U.Has(h, id), mp.Get(h), id)
				}
			}
			if !d.Headroom() || d.W.IsLocked() {
				return
			}
			f := ecs.NewFilter1[lateC[T]](d.W)
			q := f.Query()
			if c := q.Count(); c != 0 {
				d.viol("C18", "late-type-query", "a query for component %v, registered just now, counts %d entities", id, c)
			}
			q.Close()
			if !roundTrip {
				return
			}
			n := 0
			for k := len(cands) - 1; k >= 0 && n < 3; k-- {
				e := cands[k]
				if n > 0 && !d.M.Ents[e].Mask.Intersects(RelMask) && k > 0 {
					continue // the entity created last, then entities with relation targets (they sit in relation tables)
				}
				n++
				h := d.H[e]
				d.Stat.LateRoundTrips++
				val := int64(7700 + n)
				mp.Add(h, &lateC[T]{V: val})
				p := mp.Get(h)
				if !mp.HasAll(h) || !m1.Has(h) || !d.U.Has(h, id) || p == nil || p.V != val || m1.Get(h) != p || unsafe.Pointer(p) != d.U.Get(h, id) {
					d.viol("C18", "late-type-use", "EID %d: component %v added with value %d: Map1.HasAll=%v Map.Has=%v Unsafe.Has=%v Map1.Get=%p Map.Get=%p Unsafe.Get=%p", e, id, val, mp.HasAll(h), m1.Has(h), d.U.Has(h, id), p, m1.Get(h), d.U.Get(h, id))
				}
				q := f.Query()
				seen := 0
				for q.Next() {
					seen++
					if q.Entity() != h || q.Get() != p {
						d.viol("C18", "late-type-query", "query for late component %v visits %v with pointer %p, expected %v with %p", id, q.Entity(), q.Get(), h, p)
					}
				}
				if seen != 1 {
					d.viol("C18", "late-type-query", "query for late component %v visits %d entities, expected 1", id, seen)
				}
				mp.Remove(h)
				if mp.HasAll(h) || m1.Has(h) || d.U.Has(h, id) {
					d.viol("C18", "late-type-use", "EID %d: component %v removed, Has still true", e, id)
				}
			}
		},
	}
}

var lateTypes = []lateType{
	mkLate[[0]byte](0), mkLate[[1]byte](1), mkLate[[2]byte](2), mkLate[[3]byte](3), mkLate[[4]byte](4), mkLate[[5]byte](5),
	mkLate[[6]byte](6), mkLate[[7]byte](7), mkLate[[8]byte](8), mkLate[[9]byte](9), mkLate[[10]byte](10), mkLate[[11]byte](11),
	mkLate[[12]byte](12), mkLate[[13]byte](13), mkLate[[14]byte](14), mkLate[[15]byte](15),
}

// regLateType registers one more component type in mid-history and uses it at once (C18: every registered type is usable
// in entities, filters and queries - also one registered after archetypes and relation tables exist).
func (d *Drv) regLateType(op *Op) {
	lt := &lateTypes[op.N%len(lateTypes)]
	id := lt.register(d)
	if again := lt.register(d); again != id {
		d.viol("C18", "late-type-id", "late type %d registered as %v, then maps to %v", op.N, id, again)
	}
	d.LateID = append(d.LateID, id)
	d.lateUsed = append(d.lateUsed, op.N%len(lateTypes))
	if os.Getenv("VERIF_DBG18") != "" {
		fmt.Fprintf(os.Stderr, "late type %d -> %v in %s\n", op.N, id, d.Name)
	}
	m := d.M
	var cands []EID
	for i := m.Epoch0; i < len(m.Ents); i++ {
		if m.Ents[i].Alive && i < len(d.H) && !d.H[i].IsZero() {
			cands = append(cands, EID(i))
		}
	}
	// the round trip is left out when observers would see it
	roundTrip := true
	for i := range m.Obs {
		if m.Obs[i].Registered {
			roundTrip = false
		}
	}
	lt.probe(d, id, cands, roundTrip)
}
