package eng

import (
	"verifharness/typed"
	u "verifharness/universe"
)

// MatrixScript returns a scripted sequence of op constructors that drives every method of the
// generated types instantiated for tuple t (MapN, FilterN/QueryN, ExchangeN, ObserverN) at least once.
// Each constructor builds its op from the model state at that point (nil = not applicable).
func (g *Gen) MatrixScript(t int) []func() *Op {
	tp := &typed.Tuples[t]
	cs := tp.Comps
	set := SetOf(cs...)
	hasRel := set.Intersects(RelMask)
	allRel := set.Minus(RelMask) == 0
	mk := func(k Kind) *Op { return &Op{K: k, SF: -1, Tuple: -1, E: ZeroE} }
	// an alive entity holding all tuple comps / none of them
	with := func() (EID, bool) {
		return g.pickAliveWhere(func(e EID, st *MEnt) bool { return st.Mask.Contains(set) })
	}
	without := func() (EID, bool) {
		return g.pickAliveWhere(func(e EID, st *MEnt) bool { return !st.Mask.Intersects(set) })
	}
	var s []func() *Op
	newEnt := func(fn int) func() *Op {
		return func() *Op {
			op := mk(KNewEntity)
			op.Path, op.Tuple, op.Fn = PTMap, t, fn
			op.Add = append([]int{}, cs...)
			op.Vals = g.vals(len(cs))
			op.Rels = g.relsFor(cs, -2)
			return op
		}
	}
	plain := func() *Op { // an entity without the tuple comps: a few other comps through the ID-based path
		op := mk(KNewEntity)
		op.Path = PUnsafe
		op.Add = g.compsWhere(2, func(c int) bool { return !set.Has(c) && !u.Types[c].IsRel })
		op.Vals = g.vals(len(op.Add))
		return op
	}
	newBatch := func(fn int) func() *Op {
		return func() *Op {
			op := mk(KNewBatch)
			op.Path, op.Tuple, op.Fn, op.N = PTMap, t, fn, 2+g.R.Intn(4)
			op.Add = append([]int{}, cs...)
			op.Vals = g.vals(len(cs))
			op.Rels = g.relsFor(cs, -2)
			return op
		}
	}
	single := func(k Kind, path, fn, sub int) func() *Op {
		return func() *Op {
			op := mk(k)
			op.Path, op.Tuple, op.Fn, op.Sub = path, t, fn, sub
			switch k {
			case KAdd:
				e, ok := without()
				if !ok {
					return nil
				}
				op.E = e
				op.Add = append([]int{}, cs...)
				op.Vals = g.vals(len(cs))
				op.Rels = g.relsFor(cs, e)
			case KRemove:
				e, ok := with()
				if !ok {
					return nil
				}
				op.E = e
				op.Rem = append([]int{}, cs...)
			case KExchange:
				e, ok := g.pickAliveWhere(func(e EID, st *MEnt) bool { return !st.Mask.Intersects(set) && st.Mask != 0 })
				if !ok {
					return nil
				}
				op.E = e
				l := g.M.Ents[e].Mask.List()
				op.Rem = []int{l[g.R.Intn(len(l))]}
				op.Add = append([]int{}, cs...)
				op.Vals = g.vals(len(cs))
				op.Rels = g.relsFor(cs, e)
			case KSet, KWrite:
				e, ok := with()
				if !ok {
					return nil
				}
				op.E = e
				op.Add = append([]int{}, cs...)
				op.Vals = g.vals(len(cs))
			case KSetRel:
				e, ok := with()
				if !ok || !hasRel {
					return nil
				}
				op.E = e
				for _, c := range relsOf(set).List() {
					op.Rels = append(op.Rels, RelT{C: c, T: g.target(e)})
				}
			}
			return op
		}
	}
	// batch ops over a typed filter of the same tuple (arity <= 8) or Filter0+With
	batchF := func(required CSet, forbidden CSet) *FSpec {
		f := &FSpec{Kind: FZero, With: required.List(), Without: forbidden.List()}
		if tp.NewFilter != nil && required.Contains(set) {
			f.Kind, f.Tuple = FTyped, t
			f.With = required.Minus(set).List()
		}
		return f
	}
	batch := func(k Kind, path, fn int, cb bool) func() *Op {
		return func() *Op {
			op := mk(k)
			op.Path, op.Tuple, op.Fn, op.BatchCb = path, t, fn, cb
			switch k {
			case KAddBatch:
				// selection: entities with one marker comp and without the tuple comps
				e, ok := g.pickAliveWhere(func(e EID, st *MEnt) bool { return !st.Mask.Intersects(set) && st.Mask.Minus(RelMask) != 0 })
				if !ok {
					return nil
				}
				m := g.M.Ents[e].Mask.Minus(RelMask).List()[0]
				op.F = batchF(SetOf(m), set)
				op.Add = append([]int{}, cs...)
				op.Vals = g.vals(len(cs))
				op.Rels = g.relsFor(cs, -2)
			case KRemoveBatch:
				if _, ok := with(); !ok {
					return nil
				}
				op.F = batchF(set, 0)
				op.Rem = append([]int{}, cs...)
			case KExchangeBatch:
				e, ok := g.pickAliveWhere(func(e EID, st *MEnt) bool { return !st.Mask.Intersects(set) && st.Mask.Minus(RelMask) != 0 })
				if !ok {
					return nil
				}
				m := g.M.Ents[e].Mask.Minus(RelMask).List()[0]
				op.F = batchF(SetOf(m), set)
				op.Rem = []int{m}
				op.Add = append([]int{}, cs...)
				op.Vals = g.vals(len(cs))
				op.Rels = g.relsFor(cs, -2)
			case KSetRelBatch:
				if _, ok := with(); !ok || !hasRel {
					return nil
				}
				op.F = batchF(set, 0)
				for _, c := range relsOf(set).List() {
					op.Rels = append(op.Rels, RelT{C: c, T: g.target(-2)})
				}
			}
			return op
		}
	}
	// ---- script
	s = append(s, plain, plain, plain)
	if tp.NewObs != nil {
		ev := EvAdd
		if allRel {
			ev = EvAddRel
		}
		for _, variant := range []int{0, 1, 2, 3} {
			variant := variant
			for _, tuple := range []int{t, -1} { // typed observer and its generic twin
				tuple := tuple
				s = append(s, func() *Op {
					op := mk(KRegObs)
					op.Slot = len(g.M.Obs)
					o := &ObsSpec{Ev: ev, Tuple: tuple, UnregOther: -1, Probe: true}
					if tuple < 0 {
						o.Comps = append([]int{}, cs...)
					}
					switch variant {
					case 1:
						o.With = g.compsWhere(1, func(c int) bool { return !set.Has(c) && !u.Types[c].IsRel })
					case 2:
						o.Without = g.compsWhere(1, func(c int) bool { return !set.Has(c) })
					case 3:
						o.Exclusive = true
						o.With = g.compsWhere(1, func(c int) bool { return !set.Has(c) && !u.Types[c].IsRel })
						if ev == EvAdd || ev == EvAddRel {
							// For(...) in addition to the tuple
							o.Comps = append(o.Comps, g.compsWhere(1, func(c int) bool { return !set.Has(c) && (!allRel || u.Types[c].IsRel) })...)
						}
					}
					op.Obs = o
					return op
				})
			}
		}
	}
	if tp.NewObs != nil {
		// the typed observer of this tuple (and its generic twin) for every other event type it is valid for
		evs := []EvType{EvCreate, EvRemoveEntity, EvRemove, EvSet, EvCustom0}
		if allRel {
			evs = append(evs, EvRemoveRel)
		}
		for _, ev := range evs {
			ev := ev
			for _, tuple := range []int{t, -1} {
				tuple := tuple
				s = append(s, func() *Op {
					op := mk(KRegObs)
					op.Slot = len(g.M.Obs)
					o := &ObsSpec{Ev: ev, Tuple: tuple, UnregOther: -1, Probe: tuple >= 0}
					if tuple < 0 {
						o.Comps = append([]int{}, cs...)
					}
					op.Obs = o
					return op
				})
			}
		}
		// a custom event carrying the tuple's components for an entity that has them
		s = append(s, newEnt(0), func() *Op {
			e, ok := with()
			if !ok {
				return nil
			}
			op := mk(KEmit)
			op.Ev = EvCustom0
			op.E = e
			op.Add = append([]int{}, cs...)
			return op
		})
	}
	if tp.NewObs == nil {
		// arities without a typed observer: generic observers watch what the typed mapper reports (which entities, how
		// often, and - probed inside the callback - with which values), wildcard and restricted to the tuple's components
		evs := []EvType{EvCreate, EvAdd, EvRemove, EvSet, EvRemoveEntity}
		if hasRel {
			evs = append(evs, EvAddRel, EvRemoveRel)
		}
		for _, ev := range evs {
			ev := ev
			for variant := 0; variant < 2; variant++ {
				variant := variant
				s = append(s, func() *Op {
					op := mk(KRegObs)
					op.Slot = len(g.M.Obs)
					o := &ObsSpec{Ev: ev, Tuple: -1, UnregOther: -1, Probe: true}
					if variant == 1 {
						if ev == EvAddRel || ev == EvRemoveRel {
							o.Comps = relsOf(set).List()
						} else if ev == EvCreate || ev == EvRemoveEntity {
							o.With = append([]int{}, cs[:1]...)
						} else {
							o.Comps = append([]int{}, cs[:1]...)
						}
					}
					op.Obs = o
					return op
				})
			}
		}
	}
	for fn := 0; fn < 3; fn++ {
		s = append(s, newEnt(fn), newBatch(fn))
	}
	// a second round of batches: the destination tables are populated now
	s = append(s, newBatch(0), newBatch(1))
	s = append(s, single(KSet, PTMap, 0, 0), single(KWrite, PTMap, 0, 0), single(KWrite, PTMap, 0, 1), single(KSetRel, PTMap, 0, 0))
	s = append(s, single(KRemove, PTMap, 0, 0))
	for fn := 0; fn < 3; fn++ {
		s = append(s, plain, single(KAdd, PTMap, fn, 0))
	}
	s = append(s, batch(KSetRelBatch, PTMap, 0, true), batch(KSetRelBatch, PTMap, 0, false))
	s = append(s, batch(KRemoveBatch, PTMap, 0, true))
	for fn := 0; fn < 3; fn++ {
		s = append(s, plain, plain, batch(KAddBatch, PTMap, fn, false))
	}
	if tp.NewExch != nil {
		for fn := 0; fn < 3; fn++ {
			s = append(s, plain, single(KAdd, PTExch, fn, 0), plain, single(KExchange, PTExch, fn, 0))
		}
		s = append(s, single(KRemove, PTExch, 0, 0), batch(KRemoveBatch, PTExch, 0, true))
		for fn := 0; fn < 3; fn++ {
			s = append(s, plain, plain, batch(KAddBatch, PTExch, fn, false), plain, plain, batch(KExchangeBatch, PTExch, fn, false))
		}
	}
	if tp.NewFilter != nil {
		s = append(s, newEnt(0), newBatch(1))
		for variant := 0; variant < 4; variant++ {
			variant := variant
			s = append(s, func() *Op {
				op := mk(KRegFilter)
				op.SF = len(g.M.Filters)
				f := &FSpec{Kind: FTyped, Tuple: t}
				switch variant {
				case 1:
					f.With = g.compsWhere(1, func(c int) bool { return !set.Has(c) && !u.Types[c].IsRel })
					f.Without = g.compsWhere(1, func(c int) bool { return !set.Has(c) && !SetOf(f.With...).Has(c) })
				case 2:
					f.Exclusive = true
				case 3:
					f.Rels = g.aliveRels(g.relTargetsFor(f, 0, 100))
				}
				op.F = f
				return op
			})
			s = append(s, func() *Op {
				op := mk(KOpenQuery)
				op.Slot = 0
				op.SF = len(g.M.Filters) - 1
				op.Cached = true
				spec := &g.M.Filters[op.SF].Spec
				op.QRels = g.aliveRels(g.relTargetsFor(spec, relComps(spec.Rels), 60))
				return op
			}, func() *Op {
				op := mk(KStepQuery)
				op.Slot, op.N = 0, 1000
				return op
			}, func() *Op {
				op := mk(KRemoveEntities)
				op.SF = len(g.M.Filters) - 1
				op.Cached = variant%2 == 0
				op.BatchCb = true
				if len(g.M.Select(&g.M.Filters[op.SF].Spec, nil)) > 3 {
					return nil // keep some entities for the following steps
				}
				return op
			}, func() *Op {
				op := mk(KUnregFilter)
				op.SF = len(g.M.Filters) - 1
				return op
			})
		}
	}
	if tp.NewFilter != nil && hasRel {
		// relation targets per call: Batch(rel...) on a filter object, then two queries of the same object open at
		// once with different targets, stepped alternately (each must keep its own targets)
		relC := relsOf(set).List()[0]
		for _, cached := range []bool{false, true} {
			cached := cached
			var tA, tB EID
			s = append(s, newEnt(0), newEnt(0), newBatch(0), func() *Op {
				op := mk(KRegFilter)
				op.SF = len(g.M.Filters)
				op.F = &FSpec{Kind: FTyped, Tuple: t}
				return op
			}, func() *Op {
				// two distinct targets in use for relC
				tA, tB = ZeroE, ZeroE
				seen := map[EID]bool{}
				for _, e := range g.alive() {
					st := &g.M.Ents[e]
					if st.Mask.Contains(set) && !seen[st.Tgt[relC]] {
						seen[st.Tgt[relC]] = true
						if len(seen) == 1 {
							tA = st.Tgt[relC]
						} else {
							tB = st.Tgt[relC]
							break
						}
					}
				}
				if !cached {
					op := mk(KUnregFilter)
					op.SF = len(g.M.Filters) - 1
					return op
				}
				return nil
			}, func() *Op {
				op := mk(KSetRelBatch)
				op.Path, op.Tuple = PTMap, t
				op.SF = len(g.M.Filters) - 1
				op.Cached = cached
				op.QRels = []RelT{{C: relC, T: tA}}
				op.Rels = []RelT{{C: relC, T: tA}} // retarget to the same target: selects, changes nothing
				op.BatchCb = true
				return op
			}, func() *Op {
				op := mk(KOpenQuery)
				op.Slot, op.SF, op.Cached = 0, len(g.M.Filters)-1, cached
				op.QRels = []RelT{{C: relC, T: tA}}
				return op
			}, func() *Op {
				op := mk(KStepQuery)
				op.Slot, op.N = 0, 1
				return op
			}, func() *Op {
				op := mk(KOpenQuery)
				op.Slot, op.SF, op.Cached = 1, len(g.M.Filters)-1, cached
				op.QRels = []RelT{{C: relC, T: tB}}
				return op
			}, func() *Op {
				if !g.M.Queries[0].Open {
					return nil
				}
				op := mk(KStepQuery)
				op.Slot, op.N = 0, 1000
				return op
			}, func() *Op {
				if len(g.M.Queries) < 2 || !g.M.Queries[1].Open {
					return nil
				}
				op := mk(KStepQuery)
				op.Slot, op.N = 1, 1000
				return op
			}, func() *Op {
				if cached && g.M.Filters[len(g.M.Filters)-1].Registered {
					op := mk(KUnregFilter)
					op.SF = len(g.M.Filters) - 1
					return op
				}
				return nil
			})
		}
	}
	if tp.NewObs != nil {
		s = append(s, newEnt(1), func() *Op {
			e, ok := with()
			if !ok {
				return nil
			}
			op := mk(KRemoveEntity)
			op.E = e
			return op
		})
		s = append(s, func() *Op {
			// unregister the typed observers again
			for i := range g.M.Obs {
				if g.M.Obs[i].Registered && g.M.Obs[i].Spec.Tuple >= 0 {
					op := mk(KUnregObs)
					op.Slot = i
					return op
				}
			}
			return nil
		})
	}
	return s
}
