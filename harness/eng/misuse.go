package eng

import (
	"fmt"
	"runtime"
	"strings"
	"time"
	"unsafe"

	"github.com/mlange-42/ark/ecs"
	"verifharness/typed"
	u "verifharness/universe"
)

// Stale handle kinds.
const (
	StaleFree       = iota // dead, its ID is currently unused
	StaleReused            // dead, a newer incarnation of the ID is alive
	StaleReusedDead        // dead, newer incarnations exist but are dead too
	StaleZero              // the zero entity
	NStale
)

var staleNames = []string{"dead-free", "dead-reused-alive", "dead-reused-dead", "zero"}

// MisuseCase is one row of the C10 table: a call that must panic and change nothing.
type MisuseCase struct {
	Name string
	// Class: "stale" (takes a stale handle), "dup", "missing", "empty", "noreltarget", "deadtarget", "locked"
	Class string
	// Run performs the call. h is the stale handle / victim entity, aux an auxiliary alive entity or dead target.
	Run func(d *Drv, op *Op, h ecs.Entity, aux ecs.Entity)
}

// MisuseTable is the enumerated table. Built in init.
var MisuseTable []MisuseCase

func addMisuse(class, name string, run func(d *Drv, op *Op, h, aux ecs.Entity)) {
	MisuseTable = append(MisuseTable, MisuseCase{Name: name, Class: class, Run: run})
}

// tuple helpers: first tuple with no relation comps of given arity range, used for stale-handle calls
func plainTuple(k int) int {
	n := 0
	for i, t := range typed.Tuples {
		if SetOf(t.Comps...).Intersects(RelMask) || t.NewExch == nil {
			continue
		}
		if n == k {
			return i
		}
		n++
	}
	return 0
}

func init() {
	// ---- stale handles through every checked entity-taking operation
	addMisuse("stale", "World.RemoveEntity", func(d *Drv, op *Op, h, _ ecs.Entity) { d.W.RemoveEntity(h) })
	addMisuse("stale", "World.CopyEntity", func(d *Drv, op *Op, h, _ ecs.Entity) { d.W.CopyEntity(h) })
	addMisuse("stale", "Unsafe.Add", func(d *Drv, op *Op, h, _ ecs.Entity) { d.U.Add(h, d.ID[u.IP8]) })
	addMisuse("stale", "Unsafe.AddRel", func(d *Drv, op *Op, h, _ ecs.Entity) {
		d.U.AddRel(h, []ecs.ID{d.ID[u.IR1]}, ecs.RelID(d.ID[u.IR1], ecs.Entity{}))
	})
	addMisuse("stale", "Unsafe.Remove", func(d *Drv, op *Op, h, _ ecs.Entity) { d.U.Remove(h, d.ID[u.IP8]) })
	addMisuse("stale", "Unsafe.Exchange", func(d *Drv, op *Op, h, _ ecs.Entity) {
		d.U.Exchange(h, []ecs.ID{d.ID[u.IP8]}, []ecs.ID{d.ID[u.IP4]})
	})
	addMisuse("stale", "Unsafe.Get", func(d *Drv, op *Op, h, _ ecs.Entity) { d.U.Get(h, d.ID[u.IP8]) })
	addMisuse("stale", "Unsafe.Has", func(d *Drv, op *Op, h, _ ecs.Entity) { d.U.Has(h, d.ID[u.IP8]) })
	addMisuse("stale", "Unsafe.GetRelation", func(d *Drv, op *Op, h, _ ecs.Entity) { d.U.GetRelation(h, d.ID[u.IR1]) })
	addMisuse("stale", "Unsafe.SetRelations", func(d *Drv, op *Op, h, _ ecs.Entity) {
		d.U.SetRelations(h, ecs.RelID(d.ID[u.IR1], ecs.Entity{}))
	})
	addMisuse("stale", "Unsafe.IDs", func(d *Drv, op *Op, h, _ ecs.Entity) { d.U.IDs(h) })
	for _, c := range []int{u.IP8, u.IStr, u.IZ0, u.IR1} {
		c := c
		n := "Map[" + u.Types[c].Name + "]."
		addMisuse("stale", n+"Get", func(d *Drv, op *Op, h, _ ecs.Entity) { d.Maps[c].Get(h) })
		addMisuse("stale", n+"Has", func(d *Drv, op *Op, h, _ ecs.Entity) { d.Maps[c].Has(h) })
		addMisuse("stale", n+"Add", func(d *Drv, op *Op, h, _ ecs.Entity) {
			var tg []ecs.Entity
			if u.Types[c].IsRel {
				tg = []ecs.Entity{{}}
			}
			d.Maps[c].Add(h, 7, tg)
		})
		addMisuse("stale", n+"AddFn", func(d *Drv, op *Op, h, _ ecs.Entity) {
			var tg []ecs.Entity
			if u.Types[c].IsRel {
				tg = []ecs.Entity{{}}
			}
			d.Maps[c].AddFn(h, func(p unsafe.Pointer) {}, tg)
		})
		addMisuse("stale", n+"Set", func(d *Drv, op *Op, h, _ ecs.Entity) { d.Maps[c].Set(h, 7) })
		addMisuse("stale", n+"Remove", func(d *Drv, op *Op, h, _ ecs.Entity) { d.Maps[c].Remove(h) })
		if u.Types[c].IsRel {
			addMisuse("stale", n+"GetRelation", func(d *Drv, op *Op, h, _ ecs.Entity) { d.Maps[c].GetRelation(h) })
			addMisuse("stale", n+"SetRelation", func(d *Drv, op *Op, h, _ ecs.Entity) { d.Maps[c].SetRelation(h, ecs.Entity{}) })
		}
	}
	// every MapN / ExchangeN arity, through one tuple each
	seenMap := map[int]bool{}
	seenEx := map[int]bool{}
	for ti, t := range typed.Tuples {
		ti, t := ti, t
		k := len(t.Comps)
		relOrder := t.Comps
		mkrel := func(d *Drv) []ecs.Relation {
			var r []ecs.Relation
			for j, c := range relOrder {
				if u.Types[c].IsRel {
					r = append(r, ecs.RelIdx(j, ecs.Entity{}))
				}
			}
			return r
		}
		vals := make([]int64, k)
		for j := range vals {
			vals[j] = int64(9 + j)
		}
		if !seenMap[k] {
			seenMap[k] = true
			n := fmt.Sprintf("Map%d.", k)
			addMisuse("stale", n+"Get", func(d *Drv, op *Op, h, _ ecs.Entity) { d.TMap(ti).Get(h) })
			addMisuse("stale", n+"HasAll", func(d *Drv, op *Op, h, _ ecs.Entity) { d.TMap(ti).HasAll(h) })
			addMisuse("stale", n+"Add", func(d *Drv, op *Op, h, _ ecs.Entity) { d.TMap(ti).Add(h, vals, mkrel(d)) })
			addMisuse("stale", n+"AddFn", func(d *Drv, op *Op, h, _ ecs.Entity) { d.TMap(ti).AddFn(h, func(typed.Ptrs) {}, mkrel(d)) })
			addMisuse("stale", n+"Set", func(d *Drv, op *Op, h, _ ecs.Entity) { d.TMap(ti).Set(h, vals) })
			addMisuse("stale", n+"Remove", func(d *Drv, op *Op, h, _ ecs.Entity) { d.TMap(ti).Remove(h) })
			addMisuse("stale", n+"GetRelation", func(d *Drv, op *Op, h, _ ecs.Entity) { d.TMap(ti).GetRelation(h, 0) })
			if len(mkrelStatic(t.Comps)) > 0 {
				addMisuse("stale", n+"SetRelations", func(d *Drv, op *Op, h, _ ecs.Entity) { d.TMap(ti).SetRelations(h, mkrel(d)) })
			}
		}
		if t.NewExch != nil && !seenEx[k] {
			seenEx[k] = true
			n := fmt.Sprintf("Exchange%d.", k)
			addMisuse("stale", n+"Add", func(d *Drv, op *Op, h, _ ecs.Entity) { t.NewExch(d.W, false).Add(h, vals, mkrel(d)) })
			addMisuse("stale", n+"AddFn", func(d *Drv, op *Op, h, _ ecs.Entity) {
				t.NewExch(d.W, false).AddFn(h, func(typed.Ptrs) {}, mkrel(d))
			})
			addMisuse("stale", n+"Exchange", func(d *Drv, op *Op, h, _ ecs.Entity) {
				ex := t.NewExch(d.W, false)
				ex.Removes(comps([]int{u.IP1}))
				ex.Exchange(h, vals, mkrel(d))
			})
			addMisuse("stale", n+"ExchangeFn", func(d *Drv, op *Op, h, _ ecs.Entity) {
				ex := t.NewExch(d.W, false)
				ex.Removes(comps([]int{u.IP1}))
				ex.ExchangeFn(h, func(typed.Ptrs) {}, mkrel(d))
			})
			addMisuse("stale", n+"Remove", func(d *Drv, op *Op, h, _ ecs.Entity) {
				ex := t.NewExch(d.W, false)
				ex.Removes(comps([]int{u.IP1}))
				ex.Remove(h)
			})
		}
	}
	addMisuse("stale", "Event.Emit", func(d *Drv, op *Op, h, _ ecs.Entity) {
		if h.IsZero() {
			panic(skipMisuse{}) // custom events may be emitted for the zero entity
		}
		// with an observer of that type registered, emitting for a dead entity must panic
		o := ecs.Observe(d.Custom[1]).Do(func(ecs.Entity) {})
		o.Register(d.W)
		defer o.Unregister(d.W)
		d.W.Event(d.Custom[1]).Emit(h)
	})

	addMisuse("stale", "Event.Emit (whatever observers are registered)", func(d *Drv, op *Op, h, _ ecs.Entity) {
		if h.IsZero() {
			panic(skipMisuse{})
		}
		// an event type nobody observes: the handle is checked all the same
		var reg ecs.EventRegistry
		reg.NewEventType()
		reg.NewEventType()
		d.W.Event(reg.NewEventType()).Emit(h)
	})

	// ---- valid handle, invalid request. op.Add/op.Rem carry the components chosen by the generator.
	addMisuse("dup", "Unsafe.Add(dup)", func(d *Drv, op *Op, h, _ ecs.Entity) { d.U.Add(h, d.ids(op.Add)...) })
	addMisuse("dup", "Map.Add(dup)", func(d *Drv, op *Op, h, _ ecs.Entity) {
		var tg []ecs.Entity
		if u.Types[op.Add[0]].IsRel {
			tg = []ecs.Entity{{}}
		}
		d.Maps[op.Add[0]].Add(h, 5, tg)
	})
	addMisuse("dup", "Unsafe.Exchange(dup add)", func(d *Drv, op *Op, h, _ ecs.Entity) {
		d.U.Exchange(h, d.ids(op.Add), nil)
	})
	addMisuse("missing", "Unsafe.Remove(missing)", func(d *Drv, op *Op, h, _ ecs.Entity) { d.U.Remove(h, d.ids(op.Rem)...) })
	addMisuse("missing", "Map.Remove(missing)", func(d *Drv, op *Op, h, _ ecs.Entity) { d.Maps[op.Rem[0]].Remove(h) })
	addMisuse("missing", "Unsafe.Exchange(missing remove)", func(d *Drv, op *Op, h, _ ecs.Entity) {
		d.U.Exchange(h, nil, d.ids(op.Rem))
	})
	addMisuse("missing", "Exchange1.Remove(missing)", func(d *Drv, op *Op, h, _ ecs.Entity) {
		ex := typed.Tuples[plainTuple(0)].NewExch(d.W, false)
		ex.Removes(comps(op.Rem))
		ex.Remove(h)
	})
	// the batch forms of the same requests: the filter selects (at least) the victim entity
	addMisuse("dup", "Map.AddBatch(dup)", func(d *Drv, op *Op, h, _ ecs.Entity) {
		var tg []ecs.Entity
		if u.Types[op.Add[0]].IsRel {
			tg = []ecs.Entity{{}}
		}
		f := typed.NewFilter0(d.W, false)
		f.With(comps(op.Add[:1]))
		d.Maps[op.Add[0]].AddBatch(f.Batch(nil), 5, tg)
	})
	addMisuse("dup", "Map.AddBatchFn(dup, all entities)", func(d *Drv, op *Op, h, _ ecs.Entity) {
		var tg []ecs.Entity
		if u.Types[op.Add[0]].IsRel {
			tg = []ecs.Entity{{}}
		}
		d.Maps[op.Add[0]].AddBatchFn(typed.NewFilter0(d.W, false).Batch(nil), func(ecs.Entity, unsafe.Pointer) {}, tg)
	})
	addMisuse("missing", "Map.RemoveBatch(missing)", func(d *Drv, op *Op, h, _ ecs.Entity) {
		d.Maps[op.Rem[0]].RemoveBatch(typed.NewFilter0(d.W, false).Batch(nil), nil)
	})
	addMisuse("missing", "Map.RemoveBatch(missing, with callback)", func(d *Drv, op *Op, h, _ ecs.Entity) {
		d.Maps[op.Rem[0]].RemoveBatch(typed.NewFilter0(d.W, false).Batch(nil), func(ecs.Entity) {})
	})
	// ... and with a registered filter (the batch's table list comes from the cache then); the filter is unregistered again
	// whether the call panics or not
	regBatch := func(d *Drv, with []int, run func(b ecs.Batch)) {
		f := typed.NewFilter0(d.W, false)
		if len(with) > 0 {
			f.With(comps(with))
		}
		f.Register()
		defer f.Unregister()
		run(f.Batch(nil))
	}
	addMisuse("dup", "Map.AddBatch(dup, registered filter)", func(d *Drv, op *Op, h, _ ecs.Entity) {
		var tg []ecs.Entity
		if u.Types[op.Add[0]].IsRel {
			tg = []ecs.Entity{{}}
		}
		regBatch(d, op.Add[:1], func(b ecs.Batch) { d.Maps[op.Add[0]].AddBatch(b, 5, tg) })
	})
	addMisuse("dup", "Map.AddBatchFn(dup, all entities, registered filter)", func(d *Drv, op *Op, h, _ ecs.Entity) {
		var tg []ecs.Entity
		if u.Types[op.Add[0]].IsRel {
			tg = []ecs.Entity{{}}
		}
		regBatch(d, nil, func(b ecs.Batch) { d.Maps[op.Add[0]].AddBatchFn(b, func(ecs.Entity, unsafe.Pointer) {}, tg) })
	})
	addMisuse("missing", "Map.RemoveBatch(missing, registered filter)", func(d *Drv, op *Op, h, _ ecs.Entity) {
		regBatch(d, nil, func(b ecs.Batch) { d.Maps[op.Rem[0]].RemoveBatch(b, nil) })
	})
	addMisuse("empty", "Unsafe.Add()", func(d *Drv, op *Op, h, _ ecs.Entity) { d.U.Add(h) })
	addMisuse("empty", "Unsafe.Remove()", func(d *Drv, op *Op, h, _ ecs.Entity) { d.U.Remove(h) })
	addMisuse("empty", "Unsafe.Exchange(nil,nil)", func(d *Drv, op *Op, h, _ ecs.Entity) { d.U.Exchange(h, nil, nil) })
	addMisuse("empty", "Exchange1.Remove()", func(d *Drv, op *Op, h, _ ecs.Entity) {
		typed.Tuples[plainTuple(0)].NewExch(d.W, false).Remove(h)
	})
	// required relation target omitted (op.Add[0] is a relation component the entity lacks)
	addMisuse("noreltarget", "Unsafe.NewEntity(rel, no target)", func(d *Drv, op *Op, _, _ ecs.Entity) {
		d.U.NewEntity(d.ID[op.Add[0]], d.ID[u.IP8])
	})
	addMisuse("noreltarget", "Unsafe.NewEntityRel(rel, no target)", func(d *Drv, op *Op, _, _ ecs.Entity) {
		d.U.NewEntityRel([]ecs.ID{d.ID[op.Add[0]]})
	})
	addMisuse("noreltarget", "Unsafe.Add(rel, no target)", func(d *Drv, op *Op, h, _ ecs.Entity) { d.U.Add(h, d.ID[op.Add[0]]) })
	addMisuse("noreltarget", "Map.NewEntity(rel, no target)", func(d *Drv, op *Op, _, _ ecs.Entity) {
		d.Maps[op.Add[0]].NewEntity(3, nil)
	})
	addMisuse("noreltarget", "Map.Add(rel, no target)", func(d *Drv, op *Op, h, _ ecs.Entity) { d.Maps[op.Add[0]].Add(h, 3, nil) })
	addMisuse("noreltarget", "Map.NewBatch(rel, no target)", func(d *Drv, op *Op, _, _ ecs.Entity) {
		d.Maps[op.Add[0]].NewBatch(3, 3, nil)
	})
	// one relation is given twice and another one not at all: the number of relation arguments is right, a required
	// target is still missing. h is an alive entity (used as target and, for Add, as victim if it has no relation yet)
	relPair := func() (int, []int) {
		for ti, t := range typed.Tuples {
			var pos []int
			for j, c := range t.Comps {
				if u.Types[c].IsRel {
					pos = append(pos, j)
				}
			}
			if len(pos) >= 2 && len(t.Comps) == len(pos) {
				return ti, pos
			}
		}
		panic("no tuple of relation components only")
	}
	addMisuse("noreltarget", "MapN.NewEntity(one relation twice, another omitted)", func(d *Drv, op *Op, h, _ ecs.Entity) {
		ti, pos := relPair()
		rel := make([]ecs.Relation, len(pos))
		for k := range rel {
			rel[k] = ecs.RelIdx(pos[0], h)
		}
		d.TMap(ti).NewEntity(make([]int64, len(typed.Tuples[ti].Comps)), rel)
	})
	addMisuse("noreltarget", "MapN.NewBatch(one relation twice, another omitted)", func(d *Drv, op *Op, h, _ ecs.Entity) {
		ti, pos := relPair()
		rel := make([]ecs.Relation, len(pos))
		for k := range rel {
			rel[k] = u.Types[typed.Tuples[ti].Comps[pos[len(pos)-1]]].Rel(h)
		}
		d.TMap(ti).NewBatch(2, make([]int64, len(typed.Tuples[ti].Comps)), rel)
	})
	addMisuse("noreltarget", "Unsafe.NewEntityRel(one relation twice, another omitted)", func(d *Drv, op *Op, h, _ ecs.Entity) {
		a, b := d.ID[u.RelIdx[op.N%3]], d.ID[u.RelIdx[(op.N+1)%3]]
		d.U.NewEntityRel([]ecs.ID{a, b}, ecs.RelID(a, h), ecs.RelID(a, ecs.Entity{}))
	})
	addMisuse("noreltarget", "Unsafe.Exchange(add rel, no target)", func(d *Drv, op *Op, h, _ ecs.Entity) {
		d.U.Exchange(h, []ecs.ID{d.ID[op.Add[0]]}, d.ids(op.Rem))
	})
	// dead entity named as relation target (aux is a dead handle)
	addMisuse("deadtarget", "Unsafe.NewEntityRel(dead target)", func(d *Drv, op *Op, _, aux ecs.Entity) {
		d.U.NewEntityRel([]ecs.ID{d.ID[op.Add[0]]}, ecs.RelID(d.ID[op.Add[0]], aux))
	})
	addMisuse("deadtarget", "Unsafe.AddRel(dead target)", func(d *Drv, op *Op, h, aux ecs.Entity) {
		d.U.AddRel(h, []ecs.ID{d.ID[op.Add[0]]}, ecs.RelID(d.ID[op.Add[0]], aux))
	})
	addMisuse("deadtarget", "Map.NewEntity(dead target)", func(d *Drv, op *Op, _, aux ecs.Entity) {
		d.Maps[op.Add[0]].NewEntity(3, []ecs.Entity{aux})
	})
	addMisuse("deadtarget", "Map.Add(dead target)", func(d *Drv, op *Op, h, aux ecs.Entity) {
		d.Maps[op.Add[0]].Add(h, 3, []ecs.Entity{aux})
	})
	addMisuse("deadtarget", "Map.NewBatch(dead target)", func(d *Drv, op *Op, _, aux ecs.Entity) {
		d.Maps[op.Add[0]].NewBatch(2, 3, []ecs.Entity{aux})
	})
	// entity has relation component op.Rem[0]: retarget to a dead entity
	addMisuse("deadtarget2", "Unsafe.SetRelations(dead target)", func(d *Drv, op *Op, h, aux ecs.Entity) {
		d.U.SetRelations(h, ecs.RelID(d.ID[op.Rem[0]], aux))
	})
	addMisuse("deadtarget2", "Map.SetRelation(dead target)", func(d *Drv, op *Op, h, aux ecs.Entity) {
		d.Maps[op.Rem[0]].SetRelation(h, aux)
	})
	addMisuse("deadtarget2", "Map.SetRelationBatch(dead target)", func(d *Drv, op *Op, h, aux ecs.Entity) {
		f := typed.NewFilter0(d.W, false)
		f.With(comps(op.Rem[:1]))
		d.Maps[op.Rem[0]].SetRelationBatch(f.Batch(nil), aux, nil)
	})
	// ---- calls guarded only by the debug build (C20): each row is the documented misuse pattern
	// observed as one call (access + dereference), and must panic in every build configuration.
	// op.Rem[0] is a component the entity lacks.
	addMisuse("debugguard", "Query1.Get+deref after exhaustion", func(d *Drv, op *Op, h, _ ecs.Entity) {
		q := ecs.NewFilter1[u.P8](d.W).Query()
		defer q.Close()
		for q.Next() {
		}
		p := q.Get()
		sink = p.V
	})
	addMisuse("debugguard", "Query1.Entity after exhaustion", func(d *Drv, op *Op, h, _ ecs.Entity) {
		q := ecs.NewFilter1[u.P8](d.W).Query()
		defer q.Close()
		for q.Next() {
		}
		sink = int64(q.Entity().ID())
	})
	addMisuse("debugguard", "Query1.Next after exhaustion", func(d *Drv, op *Op, h, _ ecs.Entity) {
		q := ecs.NewFilter1[u.P8](d.W).Query()
		defer q.Close()
		for q.Next() {
		}
		q.Next()
	})
	// Next on a finished query, for the query shapes that pick their archetype list differently: all archetypes,
	// the archetypes of the filter's rarest component, an empty list (component contained in no archetype), the cache
	noArch := func(d *Drv, op *Op) int {
		var used CSet
		s := d.W.Stats()
		for i := range s.Archetypes {
			for _, id := range s.Archetypes[i].ComponentIDs {
				for c := 0; c < u.N; c++ {
					if d.ID[c].Index() == id {
						used = used.With(c)
					}
				}
			}
		}
		var free []int
		for c := 0; c < u.N; c++ {
			if !used.Has(c) {
				free = append(free, c)
			}
		}
		if len(free) == 0 {
			panic(skipMisuse{})
		}
		return free[op.N%len(free)]
	}
	for _, shape := range []string{"all archetypes", "With victim component", "With component in no archetype"} {
		for _, cached := range []bool{false, true} {
			shape, cached := shape, cached
			name := "Query0.Next after exhaustion (" + shape + map[bool]string{false: ")", true: ", cached)"}[cached]
			addMisuse("debugguard", name, func(d *Drv, op *Op, h, _ ecs.Entity) {
				f := ecs.NewFilter0(d.W)
				switch shape {
				case "With victim component":
					f = f.With(comps(op.Add[:1])...)
				case "With component in no archetype":
					f = f.With(comps([]int{noArch(d, op)})...)
				}
				if cached {
					f = f.Register()
					defer f.Unregister()
				}
				q := f.Query()
				defer q.Close()
				for q.Next() {
				}
				q.Next()
			})
		}
		shape := shape
		addMisuse("debugguard", "UnsafeQuery.Next after exhaustion ("+shape+")", func(d *Drv, op *Op, h, _ ecs.Entity) {
			var ids []ecs.ID
			switch shape {
			case "With victim component":
				ids = d.ids(op.Add[:1])
			case "With component in no archetype":
				ids = d.ids([]int{noArch(d, op)})
			}
			q := ecs.NewUnsafeFilter(d.W, ids...).Query()
			defer q.Close()
			for q.Next() {
			}
			q.Next()
		})
	}
	addMisuse("debugguard", "Query1.Get+deref before Next", func(d *Drv, op *Op, h, _ ecs.Entity) {
		q := ecs.NewFilter1[u.P8](d.W).Query()
		defer q.Close()
		p := q.Get()
		sink = p.V
	})
	addMisuse("debugguard", "Query1.Entity before Next", func(d *Drv, op *Op, h, _ ecs.Entity) {
		q := ecs.NewFilter1[u.P8](d.W).Query()
		defer q.Close()
		sink = int64(q.Entity().ID())
	})
	addMisuse("debugguard", "Query0.Next+Entity after Close", func(d *Drv, op *Op, h, _ ecs.Entity) {
		q := ecs.NewFilter0(d.W).Query()
		defer q.Close()
		q.Next()
		q.Close()
		q.Next()
		sink = int64(q.Entity().ID())
	})
	addMisuse("debugguard", "UnsafeQuery.Next+Get after Close", func(d *Drv, op *Op, h, _ ecs.Entity) {
		q := ecs.NewUnsafeFilter(d.W, d.ids(op.Add)...).Query()
		defer q.Close()
		q.Next()
		q.Close()
		q.Next()
		sink = int64(uintptr(q.Get(d.ID[op.Add[0]])))
	})
	addMisuse("debugguard", "Query1.Next twice after exhaustion", func(d *Drv, op *Op, h, _ ecs.Entity) {
		// the first extra Next is rejected in every build; recovering from that must not revive the query
		q := ecs.NewFilter1[u.P8](d.W).Query()
		for q.Next() {
		}
		func() {
			defer func() { recover() }()
			q.Next()
		}()
		q.Next()
	})
	addMisuse("debugguard", "UnsafeQuery.Next twice after exhaustion", func(d *Drv, op *Op, h, _ ecs.Entity) {
		q := ecs.NewUnsafeFilter(d.W, d.ids(op.Add[:1])...).Query()
		for q.Next() {
		}
		func() {
			defer func() { recover() }()
			q.Next()
		}()
		q.Next()
	})
	addMisuse("debugguard", "UnsafeQuery.Next after Close in the middle of a table", func(d *Drv, op *Op, h, _ ecs.Entity) {
		// an archetype whose first non-empty table holds at least two entities: the query is closed after the first one
		st := d.W.Stats()
		for i := range st.Archetypes {
			a := &st.Archetypes[i]
			first := -1
			for j := range a.Tables {
				if a.Tables[j].Size > 0 {
					first = a.Tables[j].Size
					break
				}
			}
			if first < 2 || len(a.ComponentIDs) == 0 {
				continue
			}
			var ids []ecs.ID
			for _, idx := range a.ComponentIDs {
				for c := 0; c < u.N; c++ {
					if d.ID[c].Index() == idx {
						ids = append(ids, d.ID[c])
					}
				}
			}
			if len(ids) != len(a.ComponentIDs) {
				continue
			}
			q := ecs.NewUnsafeFilter(d.W, ids...).Exclusive().Query()
			q.Next()
			q.Close()
			q.Next() // the query is finished: continuing is access after the end of the iteration
			return
		}
		panic(skipMisuse{})
	})
	// a copy of a query value shares the lock bit of the original: once the original is closed, closing the copy is an
	// unbalanced unlock (which panics) - but the copy must be finished afterwards in every build, whatever order Close
	// does its work in
	addMisuse("debugguard", "UnsafeQuery copy: Next after the original was closed and the copy's Close failed", func(d *Drv, op *Op, h, _ ecs.Entity) {
		st := d.W.Stats()
		for i := range st.Archetypes {
			a := &st.Archetypes[i]
			first := -1
			for j := range a.Tables {
				if a.Tables[j].Size > 0 {
					first = a.Tables[j].Size
					break
				}
			}
			if first < 2 || len(a.ComponentIDs) == 0 {
				continue
			}
			var ids []ecs.ID
			for _, idx := range a.ComponentIDs {
				for c := 0; c < u.N; c++ {
					if d.ID[c].Index() == idx {
						ids = append(ids, d.ID[c])
					}
				}
			}
			if len(ids) != len(a.ComponentIDs) {
				continue
			}
			q := ecs.NewUnsafeFilter(d.W, ids...).Exclusive().Query()
			q.Next()
			c := q
			q.Close()
			func() {
				defer func() { recover() }()
				c.Close()
			}()
			if c.Next() {
				sink = int64(c.Entity().ID())
			}
			return
		}
		panic(skipMisuse{})
	})
	addMisuse("debugguard", "Query0 copy: Next after the original was closed and the copy's Close failed", func(d *Drv, op *Op, h, _ ecs.Entity) {
		q := ecs.NewFilter0(d.W).Query()
		q.Next()
		c := q
		q.Close()
		func() {
			defer func() { recover() }()
			c.Close()
		}()
		if c.Next() {
			sink = int64(c.Entity().ID())
		}
	})
	addMisuse("debugguard", "UnsafeQuery.Entity before Next", func(d *Drv, op *Op, h, _ ecs.Entity) {
		q := ecs.NewUnsafeFilter(d.W).Query()
		defer q.Close()
		sink = int64(q.Entity().ID())
	})
	addMisuse("debugguard", "UnsafeQuery.Get missing component", func(d *Drv, op *Op, h, _ ecs.Entity) {
		q := ecs.NewUnsafeFilter(d.W, d.ids(op.Add)...).Exclusive().Query()
		defer q.Close()
		for q.Next() {
			sink = int64(uintptr(q.Get(d.ID[op.Rem[0]])))
		}
		panic("no entity visited") // the victim entity matches its own exclusive composition
	})
	addMisuse("debugguard", "Query1.EntityAt out of range", func(d *Drv, op *Op, h, _ ecs.Entity) {
		q := ecs.NewFilter1[u.P8](d.W).Query()
		defer q.Close()
		q.EntityAt(q.Count())
	})
	addMisuse("debugguard", "Map.Set missing component", func(d *Drv, op *Op, h, _ ecs.Entity) { d.Maps[op.Rem[0]].Set(h, 5) })
	addMisuse("debugguard", "Unsafe.Get missing component", func(d *Drv, op *Op, h, _ ecs.Entity) {
		sink = int64(uintptr(d.U.Get(h, d.ID[op.Rem[0]])))
	})
	addMisuse("debugguard", "Unsafe.GetRelation missing component", func(d *Drv, op *Op, h, _ ecs.Entity) {
		d.U.GetRelation(h, d.ID[u.RelIdx[op.N%3]])
	})
	addMisuse("debugguard", "Map.GetRelation missing component", func(d *Drv, op *Op, h, _ ecs.Entity) {
		d.Maps[u.RelIdx[op.N%3]].GetRelation(h)
	})
	// ... and for a missing component that is not a relation (op.Rem[0])
	addMisuse("debugguard", "Unsafe.GetRelation missing non-relation component", func(d *Drv, op *Op, h, _ ecs.Entity) {
		d.U.GetRelation(h, d.ID[op.Rem[0]])
	})
	addMisuse("debugguard", "Unsafe.GetRelationUnchecked missing non-relation component", func(d *Drv, op *Op, h, _ ecs.Entity) {
		d.U.GetRelationUnchecked(h, d.ID[op.Rem[0]])
	})
	addMisuse("debugguard", "Unsafe.GetRelationUnchecked missing component", func(d *Drv, op *Op, h, _ ecs.Entity) {
		d.U.GetRelationUnchecked(h, d.ID[u.RelIdx[op.N%3]])
	})
	addMisuse("debugguard", "Map.GetRelation missing non-relation component", func(d *Drv, op *Op, h, _ ecs.Entity) {
		d.Maps[op.Rem[0]].GetRelation(h)
	})
	addMisuse("debugguard", "Map.GetRelationUnchecked missing non-relation component", func(d *Drv, op *Op, h, _ ecs.Entity) {
		d.Maps[op.Rem[0]].GetRelationUnchecked(h)
	})
	addMisuse("debugguard", "Unsafe.GetUnchecked missing component", func(d *Drv, op *Op, h, _ ecs.Entity) {
		sink = int64(uintptr(d.U.GetUnchecked(h, d.ID[op.Rem[0]])))
	})
	addMisuse("debugguard", "MapN.Set with a later component missing", func(d *Drv, op *Op, h, _ ecs.Entity) {
		// a tuple whose first component the entity has and one of whose later components it lacks: the call is rejected
		// in every build, and nothing may have been written when it is (the sweep after the op compares all values)
		mask := SetOf(op.Add...)
		for k := range typed.Tuples {
			ti := (k + op.N) % len(typed.Tuples)
			cs := typed.Tuples[ti].Comps
			if len(cs) < 2 || !mask.Has(cs[0]) || u.Types[cs[0]].ZeroSize || mask.Contains(SetOf(cs...)) {
				continue
			}
			vals := make([]int64, len(cs))
			for j := range vals {
				vals[j] = 424242
			}
			d.TMap(ti).Set(h, vals)
			return
		}
		panic(skipMisuse{})
	})
	addMisuse("debugguard", "MapN.Set with only the last component missing", func(d *Drv, op *Op, _, _ ecs.Entity) {
		// any alive entity and any tuple such that the entity has all but the last component of the tuple (the pointer of
		// the last one is fetched last): rejected in every build, nothing written
		m := d.M
		for k := range typed.Tuples {
			ti := (k + op.N) % len(typed.Tuples)
			cs := typed.Tuples[ti].Comps
			if len(cs) < 2 || u.Types[cs[0]].ZeroSize {
				continue
			}
			head := SetOf(cs[:len(cs)-1]...)
			for e := m.Epoch0; e < len(m.Ents); e++ {
				st := &m.Ents[e]
				if !st.Alive || !st.Mask.Contains(head) || st.Mask.Has(cs[len(cs)-1]) || e >= len(d.H) || d.H[e].IsZero() {
					continue
				}
				vals := make([]int64, len(cs))
				for j := range vals {
					vals[j] = 434343
				}
				d.Stat.Misuse[fmt.Sprintf("Map%d.Set last missing", len(cs))]++
				d.TMap(ti).Set(d.H[e], vals)
				return
			}
		}
		panic(skipMisuse{})
	})
	addMisuse("debugguard", "MapN.Set with only the last component missing (every arity)", func(d *Drv, op *Op, _, _ ecs.Entity) {
		// entities that have all but the last component of a high-arity tuple hardly ever exist: a temporary one is built
		// for the call and removed again (not while observers are registered: they would see it)
		for i := range d.M.Obs {
			if d.M.Obs[i].Registered {
				panic(skipMisuse{})
			}
		}
		var cands []int
		for ti := range typed.Tuples {
			cs := typed.Tuples[ti].Comps
			if len(cs) >= 2 && !u.Types[cs[0]].ZeroSize {
				cands = append(cands, ti)
			}
		}
		ti := cands[op.N%len(cands)]
		cs := typed.Tuples[ti].Comps
		var ids []ecs.ID
		var rel []ecs.Relation
		for _, c := range cs[:len(cs)-1] {
			ids = append(ids, d.ID[c])
			if u.Types[c].IsRel {
				rel = append(rel, ecs.RelID(d.ID[c], ecs.Entity{}))
			}
		}
		tmp := d.U.NewEntityRel(ids, rel...)
		if tmp.ID() > d.foreignMaxID {
			d.foreignMaxID = tmp.ID() // the ID is in use in this epoch, although no model entity has it
		}
		defer func() {
			// whether or not the call was rejected with a panic: nothing may have been written (the temporary entity was
			// created without values, so everything reads zero)
			for _, c := range cs[:len(cs)-1] {
				if u.Types[c].ZeroSize {
					continue
				}
				if v, ok := u.Types[c].Dec(d.U.Get(tmp, d.ID[c])); v != 0 || !ok {
					d.viol("C10", "misuse-effect", "Map%d.Set on an entity that lacks the last component wrote component %s (reads %d)", len(cs), typeName(c), v)
					break
				}
			}
			d.W.RemoveEntity(tmp)
		}()
		vals := make([]int64, len(cs))
		for j := range vals {
			vals[j] = 454545
		}
		d.Stat.Misuse[fmt.Sprintf("Map%d.Set last missing (temporary entity)", len(cs))]++
		d.TMap(ti).Set(tmp, vals)
	})
	addMisuse("debugguard", "MapN.GetRelation missing component", func(d *Drv, op *Op, h, _ ecs.Entity) {
		// a tuple none of whose components the entity has
		mask := SetOf(op.Add...)
		for ti := range typed.Tuples {
			if !mask.Intersects(SetOf(typed.Tuples[ti].Comps...)) {
				d.TMap(ti).GetRelation(h, op.N%len(typed.Tuples[ti].Comps))
				return
			}
		}
		panic(skipMisuse{})
	})
	// ---- the ...Unchecked accessors with a dead handle whose ID has been recycled: they are documented to skip the
	// liveness check, so they address the ID's current occupant. Whether such a call panics is not specified in
	// itself, but all build configurations must agree (C20). h is the stale handle.
	occupant := func(d *Drv, h ecs.Entity) (EID, *MEnt) {
		for e := len(d.M.Ents) - 1; e >= d.M.Epoch0; e-- {
			if d.M.Ents[e].Alive && e < len(d.H) && d.H[e].ID() == h.ID() {
				return EID(e), &d.M.Ents[e]
			}
		}
		panic(skipMisuse{})
	}
	occComp := func(d *Drv, op *Op, h ecs.Entity, rel bool) int {
		_, st := occupant(d, h)
		var l []int
		for _, c := range st.Mask.List() {
			if u.Types[c].IsRel == rel && (rel || !u.Types[c].ZeroSize) {
				l = append(l, c)
			}
		}
		if len(l) == 0 {
			panic(skipMisuse{})
		}
		return l[op.N%len(l)]
	}
	addMisuse("uncheckedstale", "Unsafe.GetUnchecked(recycled handle)+deref", func(d *Drv, op *Op, h, _ ecs.Entity) {
		c := occComp(d, op, h, false)
		v, _ := u.Types[c].Dec(d.U.GetUnchecked(h, d.ID[c]))
		sink = v
	})
	addMisuse("uncheckedstale", "Unsafe.HasUnchecked(recycled handle)", func(d *Drv, op *Op, h, _ ecs.Entity) {
		c := occComp(d, op, h, false)
		if !d.U.HasUnchecked(h, d.ID[c]) {
			sink++
		}
	})
	addMisuse("uncheckedstale", "Unsafe.GetRelationUnchecked(recycled handle)", func(d *Drv, op *Op, h, _ ecs.Entity) {
		c := occComp(d, op, h, true)
		sink = int64(d.U.GetRelationUnchecked(h, d.ID[c]).ID())
	})
	addMisuse("uncheckedstale", "Map.GetUnchecked(recycled handle)+deref", func(d *Drv, op *Op, h, _ ecs.Entity) {
		c := occComp(d, op, h, false)
		v, _ := u.Types[c].Dec(d.Maps[c].GetUnchecked(h))
		sink = v
	})
	addMisuse("uncheckedstale", "Map.HasUnchecked(recycled handle)", func(d *Drv, op *Op, h, _ ecs.Entity) {
		c := occComp(d, op, h, false)
		if !d.Maps[c].HasUnchecked(h) {
			sink++
		}
	})
	addMisuse("uncheckedstale", "Map.GetRelationUnchecked(recycled handle)", func(d *Drv, op *Op, h, _ ecs.Entity) {
		c := occComp(d, op, h, true)
		sink = int64(d.Maps[c].GetRelationUnchecked(h).ID())
	})
	addMisuse("uncheckedstale", "MapN.GetUnchecked(recycled handle)+deref", func(d *Drv, op *Op, h, _ ecs.Entity) {
		_, st := occupant(d, h)
		for k := range typed.Tuples {
			ti := (k + op.N) % len(typed.Tuples)
			cs := typed.Tuples[ti].Comps
			if !st.Mask.Contains(SetOf(cs...)) {
				continue
			}
			ptrs := d.TMap(ti).GetUnchecked(h)
			for j, c := range cs {
				if !u.Types[c].ZeroSize {
					v, _ := u.Types[c].Dec(ptrs[j])
					sink = v
				}
			}
			for j, c := range cs {
				if u.Types[c].IsRel {
					sink += int64(d.TMap(ti).GetRelationUnchecked(h, j).ID())
				}
			}
			return
		}
		panic(skipMisuse{})
	})
	// the same patterns for every generated query arity: op.Tuple is a typed tuple contained in the victim's composition
	// (the result is non-empty), cached and uncached
	derefable := func(op *Op) {
		for _, c := range typed.Tuples[op.Tuple].Comps {
			if !u.Types[c].ZeroSize {
				return
			}
		}
		panic(skipMisuse{}) // only zero-size components: nothing to dereference, in any build
	}
	tq := func(d *Drv, op *Op, cached bool) (typed.TFilter, typed.TQuery) {
		f := typed.Tuples[op.Tuple].NewFilter(d.W, false)
		if cached {
			f.Register()
		}
		return f, f.Query(nil)
	}
	for _, cached := range []bool{false, true} {
		cached := cached
		name := map[bool]string{false: "", true: " (cached filter)"}[cached]
		fin := func(f typed.TFilter, q typed.TQuery) {
			// closing a finished or closed query is documented as harmless, whatever was tried on it before
			if p := try(func() { q.Close() }); p != nil {
				d := finDrv
				d.viol("C07", "close-panicked", "Close of a finished query%s panicked after the guarded misuse: %v", name, p)
			}
			if cached {
				f.Unregister()
			}
		}
		addMisuse("debugguardN", "QueryN.Entity after exhaustion"+name, func(d *Drv, op *Op, h, _ ecs.Entity) {
			f, q := tq(d, op, cached)
			defer fin(f, q)
			for q.Next() {
			}
			sink = int64(q.Entity().ID())
		})
		addMisuse("debugguardN", "QueryN.Entity after early Close"+name, func(d *Drv, op *Op, h, _ ecs.Entity) {
			f, q := tq(d, op, cached)
			defer fin(f, q)
			q.Next()
			q.Close()
			sink = int64(q.Entity().ID())
		})
		addMisuse("debugguardN", "QueryN.Get+deref after early Close"+name, func(d *Drv, op *Op, h, _ ecs.Entity) {
			derefable(op)
			f, q := tq(d, op, cached)
			defer fin(f, q)
			q.Next()
			q.Close()
			ptrs := q.Get()
			for j, c := range typed.Tuples[op.Tuple].Comps {
				if !u.Types[c].ZeroSize {
					v, _ := u.Types[c].Dec(ptrs[j])
					sink = v
				}
			}
			// reaching this point means the dereference did not panic: the row returns normally and is reported
		})
		addMisuse("debugguardN", "QueryN.Get+deref after exhaustion"+name, func(d *Drv, op *Op, h, _ ecs.Entity) {
			derefable(op)
			f, q := tq(d, op, cached)
			defer fin(f, q)
			for q.Next() {
			}
			ptrs := q.Get()
			for j, c := range typed.Tuples[op.Tuple].Comps {
				if !u.Types[c].ZeroSize {
					v, _ := u.Types[c].Dec(ptrs[j])
					sink = v
				}
			}
			// reaching this point means the dereference did not panic: the row returns normally and is reported
		})
		addMisuse("debugguardN", "QueryN.Next after exhaustion (With component in no archetype)"+name, func(d *Drv, op *Op, h, _ ecs.Entity) {
			c := noArch(d, op)
			f := typed.Tuples[op.Tuple].NewFilter(d.W, false)
			f.With(comps([]int{c}))
			if cached {
				f.Register()
			}
			q := f.Query(nil)
			defer fin(f, q)
			for q.Next() {
			}
			q.Next()
		})
		addMisuse("debugguardN", "QueryN.Next after exhaustion"+name, func(d *Drv, op *Op, h, _ ecs.Entity) {
			f, q := tq(d, op, cached)
			defer fin(f, q)
			for q.Next() {
			}
			q.Next()
		})
		// Count and EntityAt do not use the cursor: what they do on a finished query is the same in every build
		addMisuse("debugguardN", "QueryN.Count+EntityAt after exhaustion"+name, func(d *Drv, op *Op, h, _ ecs.Entity) {
			defer covering(d, op)()
			f, q := tq(d, op, cached)
			defer fin(f, q)
			for q.Next() {
			}
			if n := q.Count(); n > 0 {
				sink = int64(q.EntityAt(n - 1).ID())
			}
			sink += int64(q.EntityAt(0).ID())
		})
		addMisuse("debugguardN", "QueryN.Count+EntityAt after early Close"+name, func(d *Drv, op *Op, h, _ ecs.Entity) {
			defer covering(d, op)()
			f, q := tq(d, op, cached)
			defer fin(f, q)
			q.Next()
			q.Close()
			if n := q.Count(); n > 0 {
				sink = int64(q.EntityAt(n - 1).ID())
			}
			sink += int64(q.EntityAt(0).ID())
		})
	}
	// ---- queries created with an invalid relation argument (every arity, op.Tuple has a relation component):
	// whether the call panics or yields an empty query is not specified for dead targets, but it must not leak
	// a lock: the row closes whatever it got and the sweep after the op compares IsLocked with the model.
	badQuery := func(name string, cached bool, mk func(d *Drv, op *Op, dead ecs.Entity) []ecs.Relation) {
		addMisuse("badquery", name, func(d *Drv, op *Op, h, aux ecs.Entity) {
			f := typed.Tuples[op.Tuple].NewFilter(d.W, false)
			if cached {
				f.Register()
				defer f.Unregister()
			}
			rel := mk(d, op, aux)
			func() {
				defer func() { recover() }()
				q := f.Query(rel)
				q.Close()
			}()
			func() {
				defer func() { recover() }()
				_ = f.Batch(rel)
			}()
			// the filter object is as usable as before: a plain query on it works (and does not block - a lock taken by
			// the rejected call would still be held)
			if d.Headroom() {
				if !completes(func() {
					if p := try(func() { q := f.Query(nil); q.Close() }); p != nil {
						d.viol("C10", "filter-after-rejected-query", "%s: a plain Query on the same filter object panics after the rejected call: %v", name, p)
					}
				}) {
					d.viol("C10", "filter-after-rejected-query", "%s: a plain Query on the same filter object blocks for ever after the rejected call", name)
				}
			}
			panic("invalid relation argument handled") // counted as a rejected call; monitors run afterwards
		})
	}
	relPos := func(op *Op) (int, int) {
		for j, c := range typed.Tuples[op.Tuple].Comps {
			if u.Types[c].IsRel {
				return j, c
			}
		}
		return 0, typed.Tuples[op.Tuple].Comps[0]
	}
	for _, cached := range []bool{false, true} {
		n := map[bool]string{false: "", true: " (cached)"}[cached]
		badQuery("FilterN.Query(dead target by type)"+n, cached, func(d *Drv, op *Op, dead ecs.Entity) []ecs.Relation {
			_, c := relPos(op)
			return []ecs.Relation{u.Types[c].Rel(dead)}
		})
		badQuery("FilterN.Query(dead target by index)"+n, cached, func(d *Drv, op *Op, dead ecs.Entity) []ecs.Relation {
			j, _ := relPos(op)
			return []ecs.Relation{ecs.RelIdx(j, dead)}
		})
		badQuery("FilterN.Query(relation not in filter)"+n, cached, func(d *Drv, op *Op, dead ecs.Entity) []ecs.Relation {
			for _, c := range u.RelIdx {
				if !SetOf(typed.Tuples[op.Tuple].Comps...).Has(c) {
					return []ecs.Relation{u.Types[c].Rel(ecs.Entity{})}
				}
			}
			return []ecs.Relation{ecs.RelID(d.ID[u.IP8], ecs.Entity{})}
		})
		badQuery("FilterN.Query(non-relation component)"+n, cached, func(d *Drv, op *Op, dead ecs.Entity) []ecs.Relation {
			for j, c := range typed.Tuples[op.Tuple].Comps {
				if !u.Types[c].IsRel {
					return []ecs.Relation{ecs.RelIdx(j, ecs.Entity{})}
				}
			}
			return []ecs.Relation{ecs.RelID(d.ID[u.IP8], ecs.Entity{})}
		})
	}
	// ---- a creation whose relation arguments do not fit a *new* archetype (a non-relation component named as relation,
	// or a relation component the entity does not get) is rejected, and the world works afterwards: the archetype must not
	// stay behind without its table (F34). Only sets of two plain components for which no archetype exists yet are used
	// (for an existing non-relation archetype the library ignores relation arguments).
	newArch := func(d *Drv, op *Op) []ecs.ID {
		st := d.W.Stats()
		for k := 0; k < u.N*u.N; k++ {
			a, b := (op.N+k)%u.N, (op.N/7+3*k+1)%u.N
			if a == b || u.Types[a].IsRel || u.Types[b].IsRel {
				continue
			}
			exists := false
			for i := range st.Archetypes {
				ids := st.Archetypes[i].ComponentIDs
				if len(ids) == 2 && ((ids[0] == d.ID[a].Index() && ids[1] == d.ID[b].Index()) || (ids[0] == d.ID[b].Index() && ids[1] == d.ID[a].Index())) {
					exists = true
				}
			}
			if !exists {
				return []ecs.ID{d.ID[a], d.ID[b]}
			}
		}
		panic(skipMisuse{})
	}
	addMisuse("newarchrel", "Unsafe.NewEntityRel(new archetype, non-relation component named as relation)", func(d *Drv, op *Op, _, _ ecs.Entity) {
		ids := newArch(d, op)
		d.U.NewEntityRel(ids, ecs.RelID(ids[0], ecs.Entity{}))
	})
	addMisuse("newarchrel", "Unsafe.NewEntityRel(new archetype, relation component that is not among the components)", func(d *Drv, op *Op, _, _ ecs.Entity) {
		ids := newArch(d, op)
		d.U.NewEntityRel(ids, ecs.RelID(d.ID[u.IR0], ecs.Entity{}))
	})
	// ---- filter objects guard their own state: a registered filter cannot be modified or registered again, an unregistered one
	// cannot be unregistered (a modified mask under an unchanged cache entry would make cached and uncached results diverge, C05).
	// The rejected call leaves the filter as it was: the cached-twin comparison goes on with the same object.
	for _, fm := range []struct {
		name string
		reg  bool
		run  func(d *Drv, f typed.TFilter)
	}{
		{"With", true, func(d *Drv, f typed.TFilter) { f.With(comps([]int{u.IP8})) }},
		{"Without", true, func(d *Drv, f typed.TFilter) { f.Without(comps([]int{u.IP4})) }},
		{"Exclusive", true, func(d *Drv, f typed.TFilter) { f.Exclusive() }},
		{"Relations", true, func(d *Drv, f typed.TFilter) { f.Relations(nil) }},
		{"Register", true, func(d *Drv, f typed.TFilter) { f.Register() }},
		{"Unregister", false, func(d *Drv, f typed.TFilter) { f.Unregister() }},
	} {
		fm := fm
		state := "registered"
		if !fm.reg {
			state = "unregistered"
		}
		addMisuse("filterstate", "Filter."+fm.name+"("+state+" filter)", func(d *Drv, op *Op, _, _ ecs.Entity) {
			n := len(d.SF)
			for k := 0; k < n; k++ {
				s := (op.N + k) % n
				if s < len(d.M.Filters) && d.M.Filters[s].Used && d.SF[s].inst != nil && d.M.Filters[s].Registered == fm.reg {
					d.Stat.Misuse["filter arity "+fmt.Sprint(d.SF[s].inst.Arity())+" "+fm.name]++
					fm.run(d, d.SF[s].inst)
					return
				}
			}
			panic(skipMisuse{})
		})
	}
	// ---- structural operations on a locked world (h is an alive entity; the generator only picks these while a query is open)
	lockedOps := map[string]func(d *Drv, op *Op, h, aux ecs.Entity){
		"World.NewEntity":    func(d *Drv, op *Op, h, _ ecs.Entity) { d.W.NewEntity() },
		"World.NewEntities":  func(d *Drv, op *Op, h, _ ecs.Entity) { d.W.NewEntities(3, nil) },
		"World.RemoveEntity": func(d *Drv, op *Op, h, _ ecs.Entity) { d.W.RemoveEntity(h) },
		"World.CopyEntity":   func(d *Drv, op *Op, h, _ ecs.Entity) { d.W.CopyEntity(h) },
		"World.RemoveEntities": func(d *Drv, op *Op, h, _ ecs.Entity) {
			d.W.RemoveEntities(typed.NewFilter0(d.W, false).Batch(nil), nil)
		},
		"World.Reset":      func(d *Drv, op *Op, h, _ ecs.Entity) { d.W.Reset() },
		"TypeID(new type)": func(d *Drv, op *Op, h, _ ecs.Entity) { ecs.TypeID(d.W, u.Filler(2000+op.N%7)) },
		"World.Shrink":     func(d *Drv, op *Op, h, _ ecs.Entity) { d.W.Shrink() },
		"World.Shrink(0)":  func(d *Drv, op *Op, h, _ ecs.Entity) { d.W.Shrink(0) },
		"Unsafe.NewEntity": func(d *Drv, op *Op, h, _ ecs.Entity) { d.U.NewEntity(d.ID[u.IP8]) },
		"Unsafe.Add":       func(d *Drv, op *Op, h, _ ecs.Entity) { d.U.Add(h, d.ids(op.Add)...) },
		"Unsafe.Remove":    func(d *Drv, op *Op, h, _ ecs.Entity) { d.U.Remove(h, d.ids(op.Rem)...) },
		"Unsafe.Exchange":  func(d *Drv, op *Op, h, _ ecs.Entity) { d.U.Exchange(h, d.ids(op.Add), d.ids(op.Rem)) },
		"Map.NewEntity":    func(d *Drv, op *Op, h, _ ecs.Entity) { d.Maps[u.IP8].NewEntity(1, nil) },
		"Map.NewBatch":     func(d *Drv, op *Op, h, _ ecs.Entity) { d.Maps[u.IP8].NewBatch(2, 1, nil) },
		"Map.Add":          func(d *Drv, op *Op, h, _ ecs.Entity) { d.Maps[op.Add[0]].Add(h, 1, nil) },
		"Map.Remove":       func(d *Drv, op *Op, h, _ ecs.Entity) { d.Maps[op.Rem[0]].Remove(h) },
		"Map.AddBatch": func(d *Drv, op *Op, h, _ ecs.Entity) {
			d.Maps[u.IP8].AddBatch(typed.NewFilter0(d.W, false).Batch(nil), 1, nil)
		},
		"Map.RemoveBatch": func(d *Drv, op *Op, h, _ ecs.Entity) {
			f := typed.NewFilter0(d.W, false)
			f.With(comps(op.Rem[:1]))
			d.Maps[op.Rem[0]].RemoveBatch(f.Batch(nil), nil)
		},
		"Unsafe.LoadEntities": func(d *Drv, op *Op, h, _ ecs.Entity) {
			if !d.Headroom() {
				panic(skipMisuse{}) // DumpEntities runs a query of its own
			}
			dump := d.U.DumpEntities()
			d.U.LoadEntities(&dump)
		},
	}
	for _, n := range sortedKeys(lockedOps) {
		addMisuse("locked", n+"(locked)", lockedOps[n])
	}
	addMisuse("lockedrel", "Unsafe.SetRelations(locked)", func(d *Drv, op *Op, h, aux ecs.Entity) {
		d.U.SetRelations(h, ecs.RelID(d.ID[op.Rem[0]], aux))
	})
	addMisuse("lockedrel", "Map.SetRelation(locked)", func(d *Drv, op *Op, h, aux ecs.Entity) {
		d.Maps[op.Rem[0]].SetRelation(h, aux)
	})
	addMisuse("lockedrel", "Map.SetRelationBatch(locked)", func(d *Drv, op *Op, h, aux ecs.Entity) {
		f := typed.NewFilter0(d.W, false)
		f.With(comps(op.Rem[:1]))
		d.Maps[op.Rem[0]].SetRelationBatch(f.Batch(nil), aux, nil)
	})
	addMisuse("lockedrel", "MapN.SetRelationsBatch(locked)", func(d *Drv, op *Op, h, aux ecs.Entity) {
		for ti, t := range typed.Tuples {
			if len(t.Comps) == 1 && t.Comps[0] == op.Rem[0] {
				f := typed.NewFilter0(d.W, false)
				f.With(comps(op.Rem[:1]))
				d.TMap(ti).SetRelationsBatch(f.Batch(nil), func(ecs.Entity) {}, []ecs.Relation{ecs.RelIdx(0, aux)})
				return
			}
		}
		panic(skipMisuse{})
	})
	addMisuse("lockedrel", "MapN.SetRelations(locked)", func(d *Drv, op *Op, h, aux ecs.Entity) {
		for ti, t := range typed.Tuples {
			if len(t.Comps) == 1 && t.Comps[0] == op.Rem[0] {
				d.TMap(ti).SetRelations(h, []ecs.Relation{ecs.RelIdx(0, aux)})
				return
			}
		}
		panic(skipMisuse{})
	})
}

func mkrelStatic(cs []int) []int {
	var r []int
	for _, c := range cs {
		if u.Types[c].IsRel {
			r = append(r, c)
		}
	}
	return r
}

func sortedKeys(m map[string]func(d *Drv, op *Op, h, aux ecs.Entity)) []string {
	var ks []string
	for k := range m {
		ks = append(ks, k)
	}
	for i := range ks {
		for j := i + 1; j < len(ks); j++ {
			if ks[j] < ks[i] {
				ks[i], ks[j] = ks[j], ks[i]
			}
		}
	}
	return ks
}

// staleHandle finds a handle of the requested staleness kind; ok=false if none exists.
func (d *Drv) staleHandle(kind int, pick int) (ecs.Entity, bool) {
	if kind == StaleZero {
		return ecs.Entity{}, true
	}
	// newest generation alive per ID
	aliveID := map[uint32]bool{}
	maxGen := map[uint32]uint32{}
	for i := d.M.Epoch0; i < len(d.M.Ents) && i < len(d.H); i++ {
		h := d.H[i]
		if h.IsZero() {
			continue
		}
		if d.M.Ents[i].Alive {
			aliveID[h.ID()] = true
		}
		if h.Gen() >= maxGen[h.ID()] {
			maxGen[h.ID()] = h.Gen()
		}
	}
	var cands []ecs.Entity
	for i := d.M.Epoch0; i < len(d.M.Ents) && i < len(d.H); i++ {
		h := d.H[i]
		if h.IsZero() || d.M.Ents[i].Alive {
			continue
		}
		var k int
		switch {
		case aliveID[h.ID()]:
			k = StaleReused
		case maxGen[h.ID()] > h.Gen():
			k = StaleReusedDead
		default:
			k = StaleFree
		}
		if k == kind {
			cands = append(cands, h)
		}
	}
	if len(cands) == 0 {
		return ecs.Entity{}, false
	}
	return cands[pick%len(cands)], true
}

// misuse executes a KMisuse op: op.Slot = table row, op.Sub = stale kind, op.E = victim (alive) entity, op.N = pick.
func (d *Drv) misuse(op *Op) {
	mc := &MisuseTable[op.Slot]
	if (mc.Class == "debugguard" || mc.Class == "debugguardN" || mc.Class == "badquery") && !d.Headroom() {
		panic(skipMisuse{})
	}
	var h, aux ecs.Entity
	switch mc.Class {
	case "stale":
		var ok bool
		h, ok = d.staleHandle(op.Sub, op.N)
		if !ok {
			panic(skipMisuse{})
		}
	case "uncheckedstale":
		var ok bool
		h, ok = d.staleHandle(StaleReused, op.N)
		if !ok {
			panic(skipMisuse{})
		}
		op.Sub = StaleReused
	case "deadtarget", "deadtarget2", "badquery":
		var ok bool
		kind := op.Sub
		if kind == StaleZero {
			kind = StaleFree
		}
		aux, ok = d.staleHandle(kind, op.N)
		if !ok {
			panic(skipMisuse{})
		}
		if op.E != ZeroE {
			h = d.h(op.E)
		}
	default:
		if op.E != ZeroE {
			h = d.h(op.E)
		}
	}
	d.Stat.Misuse[mc.Name+"/"+staleNames[op.Sub%NStale]]++
	finDrv = d
	mc.Run(d, op, h, aux)
}

var sink int64

// finDrv is the driver executing the current misuse row (rows are closures built in init and get the driver per call).
var finDrv *Drv

// skipMisuse is the panic value used when a misuse row is not applicable in the current state.
type skipMisuse struct{}

// completes runs fn in a goroutine of its own and reports whether it finished. "Blocks for ever" is not decided by time:
// the verdict is false only when the goroutine is seen *blocked on a mutex or semaphore* while the calling goroutine - the
// only other one that uses the library at these points - is waiting here, so nobody can ever release it. A goroutine that
// is merely slow (runnable, running, in a syscall) is waited for, however long that takes; the sleeps only pace the polling.
func completes(fn func()) bool {
	done := make(chan struct{})
	go func() {
		defer close(done)
		completesBody(fn)
	}()
	buf := make([]byte, 1<<20)
	seen := 0
	for wait := time.Millisecond; ; {
		select {
		case <-done:
			return true
		case <-time.After(wait):
		}
		if wait < 200*time.Millisecond {
			wait *= 2
		}
		n := runtime.Stack(buf, true)
		blocked := false
		for _, g := range strings.Split(string(buf[:n]), "\n\n") {
			if !strings.Contains(g, "eng.completesBody") {
				continue
			}
			head := g
			if i := strings.IndexByte(g, '\n'); i >= 0 {
				head = g[:i]
			}
			// the wait reason of a goroutine parked in sync.Mutex / sync.RWMutex (other semaphore waits - a goroutine that
			// wants to start a GC cycle while this one has stopped the world for the dump, for example - pass by themselves)
			if (strings.Contains(head, "[sync.Mutex.Lock") || strings.Contains(head, "[sync.RWMutex.")) && strings.Contains(g, "sync.(*") {
				blocked = true
			}
		}
		if !blocked {
			seen = 0
			continue
		}
		if seen++; seen >= 3 { // seen parked on the mutex in three consecutive dumps
			return false
		}
	}
}

// completesBody marks the goroutine started by completes in stack dumps.
//
//go:noinline
func completesBody(fn func()) { fn() }

// covering makes sure the query of op.Tuple is not empty: if no alive entity has all components of the tuple (the high
// arities), a temporary entity with them is created; the returned function removes it again. Not done while observers
// are registered (they would see it).
func covering(d *Drv, op *Op) func() {
	cs := typed.Tuples[op.Tuple].Comps
	set := SetOf(cs...)
	m := d.M
	for e := m.Epoch0; e < len(m.Ents); e++ {
		if m.Ents[e].Alive && m.Ents[e].Mask.Contains(set) {
			return func() {}
		}
	}
	for i := range m.Obs {
		if m.Obs[i].Registered {
			return func() {}
		}
	}
	var ids []ecs.ID
	var rel []ecs.Relation
	for _, c := range cs {
		ids = append(ids, d.ID[c])
		if u.Types[c].IsRel {
			rel = append(rel, ecs.RelID(d.ID[c], ecs.Entity{}))
		}
	}
	tmp := d.U.NewEntityRel(ids, rel...)
	if tmp.ID() > d.foreignMaxID {
		d.foreignMaxID = tmp.ID()
	}
	d.Stat.Misuse[fmt.Sprintf("temporary entity covering a tuple of arity %d", len(cs))]++
	return func() { d.W.RemoveEntity(tmp) }
}
