package eng

import (
	"fmt"

	"verifharness/typed"
	u "verifharness/universe"
)

// TupleComps returns the comps of a typed tuple.
func TupleComps(t int) []int { return typed.Tuples[t].Comps }

// Canon returns the canonical read-back of value v for component c.
func Canon(c int, v int64) int64 { return u.Types[c].Canon(v) }

// MFilter is a standing filter slot.
type MFilter struct {
	Spec       FSpec
	Registered bool
	Used       bool // slot in use
}

// MObs is an observer slot.
type MObs struct {
	Spec       ObsSpec
	Registered bool
	Used       bool
	Epoch      int // incremented on every registration
}

// MQuery is an open query slot.
type MQuery struct {
	Open   bool
	Spec   FSpec
	SF     int
	Cached bool
	QRels  []RelT
	Expect []EID // expected result set at open time (world is frozen while open)
	Steps  int
}

// Model is the sequential reference model of a world.
type Model struct {
	// HID is the entity ID part of the handle the primary world issued for each EID (generation bias only:
	// it lets the generator aim at "stale handle whose ID was recycled", never used by an oracle).
	HID     []uint32
	Ents    []MEnt
	Epoch0  int // first EID of the current epoch (entities before it were issued before the last Reset)
	NAlive  int
	Filters []MFilter
	Obs     []MObs
	Queries []MQuery
	Locks   int
	Late    int // component types registered during the history (KRegType)
	Res     CSet
	ResVal  [u.N]int64
	NOps    int
}

// NewModel creates an empty model.
func NewModel() *Model {
	return &Model{}
}

func (m *Model) Ent(e EID) *MEnt { return &m.Ents[e] }

// AliveIDs lists alive entities of the current epoch.
func (m *Model) AliveIDs() []EID {
	r := make([]EID, 0, m.NAlive)
	for i := m.Epoch0; i < len(m.Ents); i++ {
		if m.Ents[i].Alive {
			r = append(r, EID(i))
		}
	}
	return r
}

// Select returns the alive entities matching a filter.
func (m *Model) Select(f *FSpec, qrels []RelT) []EID {
	var r []EID
	for i := m.Epoch0; i < len(m.Ents); i++ {
		e := &m.Ents[i]
		if e.Alive && f.Matches(e, qrels) {
			r = append(r, EID(i))
		}
	}
	return r
}

// Exp is the planned effect of an operation.
type Exp struct {
	Op    *Op
	Panic bool // the call must panic and change nothing
	// Either: whether the call panics is not specified in itself (calls guarded only by the debug build); it is
	// recorded in the digest chain and compared across build configurations (C20). No state change is expected.
	Either     bool
	NewE       []EID
	NewState   []MEnt
	Sel        []EID        // batch selection
	Post       map[EID]MEnt // post-state of changed pre-existing entities
	Dead       []EID
	Events     []MEvent
	CbMay      bool         // batch callback for selected-but-unchanged entities is optional (SetRelBatch)
	Unchanged  map[EID]bool // selected entities that the op leaves unchanged
	Structural bool
	LockedCb   bool // batch callbacks / after-events run with the world locked
}

// PostOf returns the post state of an entity under this plan.
func (x *Exp) PostOf(m *Model, e EID) MEnt {
	if p, ok := x.Post[e]; ok {
		return p
	}
	for i, n := range x.NewE {
		if n == e {
			return x.NewState[i]
		}
	}
	return m.Ents[e]
}

func (m *Model) valFor(op *Op, j int, e EID, batch bool) int64 {
	c := op.Add[j]
	if op.Path == PUnsafe || op.Fn == FnNil {
		return 0
	}
	v := op.Vals[j]
	if batch && op.Fn == FnCall {
		v += int64(e)
	}
	return Canon(c, v)
}

// BatchVal is the raw value the batch callback writes for comp j of entity e.
func BatchVal(op *Op, j int, e EID) int64 { return op.Vals[j] + int64(e) }

func relsOf(mask CSet) CSet { return mask & RelMask }

func (m *Model) applyAdd(st *MEnt, op *Op, e EID, batch bool) {
	for j, c := range op.Add {
		st.Mask = st.Mask.With(c)
		st.Val[c] = m.valFor(op, j, e, batch)
	}
	for _, r := range op.Rels {
		st.Tgt[r.C] = r.T
	}
}

func applyRemove(st *MEnt, rem []int) {
	for _, c := range rem {
		st.Mask &^= 1 << uint(c)
		st.Val[c] = 0
		st.Tgt[c] = 0
	}
}

// evExchange appends the events of an add/remove/exchange transition.
func evExchange(evs []MEvent, e EID, old, neu CSet, hasAdd, hasRem bool) []MEvent {
	removed := old.Minus(neu)
	added := neu.Minus(old)
	if hasRem {
		evs = append(evs, MEvent{Ev: EvRemove, E: e, Changed: removed, ChangedMax: removed, Ctx: old, Exists: true})
		if removed.Intersects(RelMask) {
			evs = append(evs, MEvent{Ev: EvRemoveRel, E: e, Changed: relsOf(removed), ChangedMax: relsOf(removed), Ctx: old, Exists: true})
		}
	}
	if hasAdd {
		evs = append(evs, MEvent{Ev: EvAdd, E: e, Changed: added, ChangedMax: added, Ctx: old, Exists: true})
		if added.Intersects(RelMask) {
			evs = append(evs, MEvent{Ev: EvAddRel, E: e, Changed: relsOf(added), ChangedMax: relsOf(added), Ctx: old, Exists: true})
		}
	}
	return evs
}

func evCreate(evs []MEvent, e EID, mask CSet) []MEvent {
	evs = append(evs, MEvent{Ev: EvCreate, E: e, Ctx: mask, Exists: true})
	if mask.Intersects(RelMask) {
		evs = append(evs, MEvent{Ev: EvAddRel, E: e, Changed: relsOf(mask), ChangedMax: relsOf(mask), Ctx: mask, Exists: true})
	}
	return evs
}

func evRemoveEntity(evs []MEvent, e EID, mask CSet) []MEvent {
	evs = append(evs, MEvent{Ev: EvRemoveEntity, E: e, Ctx: mask, Exists: true})
	if mask.Intersects(RelMask) {
		evs = append(evs, MEvent{Ev: EvRemoveRel, E: e, Changed: relsOf(mask), ChangedMax: relsOf(mask), Ctx: mask, Exists: true})
	}
	return evs
}

// detach sets to zero the targets of all surviving entities pointing at dying ones.
func (m *Model) detach(x *Exp, dead map[EID]bool) {
	for i := m.Epoch0; i < len(m.Ents); i++ {
		id := EID(i)
		if dead[id] {
			continue
		}
		e := x.PostOf(m, id)
		if !e.Alive || !e.Mask.Intersects(RelMask) {
			continue
		}
		changed := false
		for _, c := range u.RelIdx {
			if e.Mask.Has(c) && e.Tgt[c] != ZeroE && dead[e.Tgt[c]] {
				e.Tgt[c] = ZeroE
				changed = true
			}
		}
		if changed {
			x.Post[id] = e
		}
	}
}

func (m *Model) filterOf(op *Op) *FSpec {
	if op.SF >= 0 {
		return &m.Filters[op.SF].Spec
	}
	return op.F
}

// Plan computes the expected effect of op on the current model state. It does not modify the model.
func (m *Model) Plan(op *Op) *Exp {
	x := &Exp{Op: op, Post: map[EID]MEnt{}}
	next := EID(len(m.Ents))
	switch op.K {
	case KNewEntity:
		x.Structural = true
		var st MEnt
		st.Alive = true
		m.applyAdd(&st, op, next, false)
		x.NewE = []EID{next}
		x.NewState = []MEnt{st}
		x.Events = evCreate(x.Events, next, st.Mask)
	case KNewBatch:
		x.Structural = true
		x.LockedCb = true
		for k := 0; k < op.N; k++ {
			id := next + EID(k)
			var st MEnt
			st.Alive = true
			m.applyAdd(&st, op, id, true)
			x.NewE = append(x.NewE, id)
			x.NewState = append(x.NewState, st)
		}
		for _, id := range x.NewE {
			x.Events = append(x.Events, MEvent{Ev: EvCreate, E: id, Ctx: x.NewState[0].Mask, Exists: true})
		}
		if op.N > 0 && x.NewState[0].Mask.Intersects(RelMask) {
			for _, id := range x.NewE {
				mk := x.NewState[0].Mask
				x.Events = append(x.Events, MEvent{Ev: EvAddRel, E: id, Changed: relsOf(mk), ChangedMax: relsOf(mk), Ctx: mk, Exists: true})
			}
		}
	case KAdd, KRemove, KExchange:
		x.Structural = true
		st := m.Ents[op.E]
		old := st.Mask
		applyRemove(&st, op.Rem)
		m.applyAdd(&st, op, op.E, false)
		x.Post[op.E] = st
		hasAdd := len(op.Add) > 0
		hasRem := len(op.Rem) > 0
		x.Events = evExchange(x.Events, op.E, old, st.Mask, hasAdd, hasRem)
	case KSet, KWrite:
		st := m.Ents[op.E]
		for j, c := range op.Add {
			st.Val[c] = Canon(c, op.Vals[j])
		}
		x.Post[op.E] = st
		if op.K == KSet {
			x.Events = append(x.Events, MEvent{Ev: EvSet, E: op.E, Changed: SetOf(op.Add...), ChangedMax: SetOf(op.Add...), Ctx: st.Mask, Exists: true})
		}
	case KSetRel:
		x.Structural = true
		st := m.Ents[op.E]
		var changed, named CSet
		for _, r := range op.Rels {
			named = named.With(r.C)
			if st.Tgt[r.C] != r.T {
				changed = changed.With(r.C)
				st.Tgt[r.C] = r.T
			}
		}
		if changed != 0 {
			x.Post[op.E] = st
			// the property quantifies over the *changed* relation set: a relation that is named with its current
			// target is not part of the transition, observers of it must not fire
			_ = named
			x.Events = append(x.Events,
				MEvent{Ev: EvRemoveRel, E: op.E, Changed: changed, ChangedMax: changed, Ctx: st.Mask, Exists: true},
				MEvent{Ev: EvAddRel, E: op.E, Changed: changed, ChangedMax: changed, Ctx: st.Mask, Exists: true})
		} else {
			x.Unchanged = map[EID]bool{op.E: true}
		}
	case KCopy:
		x.Structural = true
		st := m.Ents[op.E]
		x.NewE = []EID{next}
		x.NewState = []MEnt{st}
		x.Events = evCreate(x.Events, next, st.Mask)
	case KRemoveEntity:
		x.Structural = true
		st := m.Ents[op.E]
		x.Events = evRemoveEntity(x.Events, op.E, st.Mask)
		x.Dead = []EID{op.E}
		m.detach(x, map[EID]bool{op.E: true})
	case KAddBatch, KRemoveBatch, KExchangeBatch:
		x.Structural = true
		x.LockedCb = true
		f := m.filterOf(op)
		x.Sel = m.Select(f, op.QRels)
		hasAdd := len(op.Add) > 0
		hasRem := len(op.Rem) > 0
		var before, after []MEvent
		for _, id := range x.Sel {
			st := m.Ents[id]
			old := st.Mask
			applyRemove(&st, op.Rem)
			m.applyAdd(&st, op, id, true)
			x.Post[id] = st
			for _, ev := range evExchange(nil, id, old, st.Mask, hasAdd, hasRem) {
				if ev.Ev.IsBefore() {
					before = append(before, ev)
				} else {
					after = append(after, ev)
				}
			}
		}
		x.Events = append(before, after...)
	case KSetRelBatch:
		x.Structural = true
		x.LockedCb = true
		f := m.filterOf(op)
		x.Sel = m.Select(f, op.QRels)
		x.Unchanged = map[EID]bool{}
		var before, after []MEvent
		for _, id := range x.Sel {
			st := m.Ents[id]
			var changed, named CSet
			for _, r := range op.Rels {
				named = named.With(r.C)
				if st.Tgt[r.C] != r.T {
					changed = changed.With(r.C)
					st.Tgt[r.C] = r.T
				}
			}
			if changed == 0 {
				x.Unchanged[id] = true
				x.CbMay = true
				continue
			}
			x.Post[id] = st
			_ = named
			before = append(before, MEvent{Ev: EvRemoveRel, E: id, Changed: changed, ChangedMax: changed, Ctx: st.Mask, Exists: true})
			after = append(after, MEvent{Ev: EvAddRel, E: id, Changed: changed, ChangedMax: changed, Ctx: st.Mask, Exists: true})
		}
		x.Events = append(before, after...)
	case KRemoveEntities:
		x.Structural = true
		x.LockedCb = true
		f := m.filterOf(op)
		x.Sel = m.Select(f, op.QRels)
		dead := map[EID]bool{}
		var e1, e2 []MEvent
		for _, id := range x.Sel {
			st := m.Ents[id]
			dead[id] = true
			e1 = append(e1, MEvent{Ev: EvRemoveEntity, E: id, Ctx: st.Mask, Exists: true})
			if st.Mask.Intersects(RelMask) {
				e2 = append(e2, MEvent{Ev: EvRemoveRel, E: id, Changed: relsOf(st.Mask), ChangedMax: relsOf(st.Mask), Ctx: st.Mask, Exists: true})
			}
		}
		x.Events = append(e1, e2...)
		x.Dead = append([]EID{}, x.Sel...)
		m.detach(x, dead)
	case KReset:
		x.Structural = true
	case KShrink:
		// invisible
	case KEmit:
		var ctx CSet
		if op.E != ZeroE {
			ctx = m.Ents[op.E].Mask
		}
		x.Events = append(x.Events, MEvent{Ev: op.Ev, E: op.E, Changed: SetOf(op.Add...), ChangedMax: SetOf(op.Add...), Ctx: ctx, Exists: true})
	case KRegType:
		x.Structural = true
	case KRegFilter, KUnregFilter, KRegObs, KUnregObs, KAddRes, KRemoveRes, KOpenQuery, KStepQuery, KCloseQuery, KStats, KDumpLoad:
		// handled in Commit
	case KMisuse:
		x.Panic = true
		if c := MisuseTable[op.Slot].Class; c == "debugguard" || c == "debugguardN" || c == "uncheckedstale" {
			x.Either = true
		}
	default:
		panic(fmt.Sprintf("plan: unknown kind %d", op.K))
	}
	return x
}

// Commit applies a planned effect to the model.
func (m *Model) Commit(x *Exp) {
	op := x.Op
	m.NOps++
	if x.Panic {
		return
	}
	for i := range x.NewE {
		if int(x.NewE[i]) != len(m.Ents) {
			panic("commit: EID mismatch")
		}
		m.Ents = append(m.Ents, x.NewState[i])
		m.NAlive++
	}
	for id, st := range x.Post {
		m.Ents[id] = st
	}
	for _, id := range x.Dead {
		m.Ents[id] = MEnt{}
		m.NAlive--
	}
	switch op.K {
	case KRegType:
		m.Late++
	case KReset:
		for i := range m.Ents {
			m.Ents[i] = MEnt{}
		}
		m.Epoch0 = len(m.Ents)
		m.NAlive = 0
		for i := range m.Filters {
			m.Filters[i].Registered = false
			// relation targets fixed in a filter are handles of the previous epoch: such
			// filters are meaningless in the new epoch and are dropped from the standing pool
			if len(m.Filters[i].Spec.Rels) > 0 {
				nonzero := false
				for _, r := range m.Filters[i].Spec.Rels {
					if r.T != ZeroE {
						nonzero = true
					}
				}
				if nonzero {
					m.Filters[i].Used = false
				}
			}
		}
		for i := range m.Obs {
			m.Obs[i].Registered = false
		}
		m.Res = 0
		m.Locks = 0
	case KRegFilter:
		for len(m.Filters) <= op.SF {
			m.Filters = append(m.Filters, MFilter{})
		}
		f := &m.Filters[op.SF]
		if op.F != nil {
			f.Spec = *op.F
			f.Used = true
		}
		f.Registered = true
	case KUnregFilter:
		m.Filters[op.SF].Registered = false
	case KRegObs:
		for len(m.Obs) <= op.Slot {
			m.Obs = append(m.Obs, MObs{})
		}
		o := &m.Obs[op.Slot]
		if op.Obs != nil {
			o.Spec = *op.Obs
			o.Used = true
		}
		o.Registered = true
		o.Epoch++
	case KUnregObs:
		m.Obs[op.Slot].Registered = false
	case KAddRes:
		m.Res = m.Res.With(op.Slot)
		m.ResVal[op.Slot] = Canon(op.Slot, op.Vals[0])
	case KRemoveRes:
		m.Res &^= 1 << uint(op.Slot)
	case KOpenQuery:
		for len(m.Queries) <= op.Slot {
			m.Queries = append(m.Queries, MQuery{})
		}
		f := m.filterOf(op)
		m.Queries[op.Slot] = MQuery{Open: true, Spec: *f, SF: op.SF, Cached: op.Cached, QRels: op.QRels, Expect: m.Select(f, op.QRels)}
		m.Locks++
	}
}

// QueryClosed records that the query in slot s finished or was closed.
func (m *Model) QueryClosed(s int) {
	if m.Queries[s].Open {
		m.Queries[s].Open = false
		m.Locks--
	}
}

// ShouldFire evaluates an observer spec against an event. Returns (must, may):
// must=true: the callback must run once; must=false && may=true: documentation is silent.
func ShouldFire(o *ObsSpec, ev *MEvent) (must bool, may bool) {
	if o.Ev != ev.Ev {
		return false, false
	}
	decide := func(changed CSet) bool {
		comps := o.AllComps()
		with := SetOf(o.With...)
		ctx := ev.Ctx
		switch ev.Ev {
		case EvCreate, EvRemoveEntity:
			with |= comps
			comps = 0
		}
		if comps != 0 && !changed.Contains(comps) {
			return false
		}
		if !ctx.Contains(with) {
			return false
		}
		if o.Exclusive {
			if ctx.Minus(with) != 0 {
				return false
			}
		} else if ctx.Intersects(SetOf(o.Without...)) {
			return false
		}
		return true
	}
	lo := decide(ev.Changed)
	hi := decide(ev.ChangedMax)
	if lo == hi {
		return lo, false
	}
	return false, true
}
