package eng

import (
	"fmt"
	"sort"
	"unsafe"

	"github.com/mlange-42/ark/ecs"
	"verifharness/typed"
	u "verifharness/universe"
)

// ---------------------------------------------------------------- observers

func (d *Drv) ecsEvent(ev EvType) ecs.EventType {
	switch ev {
	case EvCreate:
		return ecs.OnCreateEntity
	case EvRemoveEntity:
		return ecs.OnRemoveEntity
	case EvAdd:
		return ecs.OnAddComponents
	case EvRemove:
		return ecs.OnRemoveComponents
	case EvSet:
		return ecs.OnSetComponents
	case EvAddRel:
		return ecs.OnAddRelations
	case EvRemoveRel:
		return ecs.OnRemoveRelations
	}
	return d.Custom[ev-EvCustom0]
}

func (d *Drv) regObs(op *Op) { d.regObsWith(op.Slot, op.Obs) }

// regObsWith registers the observer of a slot; with a spec a new observer object is built first.
func (d *Drv) regObsWith(slot int, newSpec *ObsSpec) {
	for len(d.Obs) <= slot {
		d.Obs = append(d.Obs, obsInst{})
	}
	if newSpec != nil {
		spec := *newSpec
		inst := obsInst{}
		cb := func(h ecs.Entity, ptrs typed.Ptrs) { d.onEvent(slot, &spec, h, ptrs) }
		if spec.Tuple >= 0 {
			o := typed.Tuples[spec.Tuple].NewObs(d.ecsEvent(spec.Ev), d.viaNew())
			if len(spec.Comps) > 0 {
				o.For(comps(spec.Comps))
			}
			if len(spec.With) > 0 {
				o.With(comps(spec.With))
			}
			if spec.Exclusive {
				o.Exclusive()
			} else if len(spec.Without) > 0 {
				o.Without(comps(spec.Without))
			}
			o.Do(cb)
			inst.typ = o
		} else {
			o := ecs.Observe(d.ecsEvent(spec.Ev))
			if d.viaNew() {
				o = (*ecs.Observer)(nil).New(d.ecsEvent(spec.Ev)) // the nil-receiver constructor
			}
			if len(spec.Comps) > 0 {
				o.For(comps(spec.Comps)...)
			}
			if len(spec.With) > 0 {
				o.With(comps(spec.With)...)
			}
			if spec.Exclusive {
				o.Exclusive()
			} else if len(spec.Without) > 0 {
				o.Without(comps(spec.Without)...)
			}
			o.Do(func(h ecs.Entity) { cb(h, nil) })
			inst.gen = o
		}
		d.Obs[slot] = inst
	}
	d.touched[slot] = true
	d.Obs[slot].epoch++
	if !d.NoBystander && (d.opIdx+slot)%3 == 0 {
		// an observer object is not bound to a world: it may have served in another world (where its components have
		// other IDs) before it is registered here
		if d.by == nil {
			d.by = newBystander()
		}
		d.Stat.ObserverReuse++
		if d.Obs[slot].typ != nil {
			d.Obs[slot].typ.Register(d.by.w)
			d.Obs[slot].typ.Unregister(d.by.w)
		} else {
			d.Obs[slot].gen.Register(d.by.w)
			d.Obs[slot].gen.Unregister(d.by.w)
		}
	}
	if d.Obs[slot].typ != nil {
		d.Obs[slot].typ.Register(d.W)
	} else {
		d.Obs[slot].gen.Register(d.W)
	}
}

func (d *Drv) unregObs(slot int) {
	d.touched[slot] = true
	if d.Obs[slot].typ != nil {
		d.Obs[slot].typ.Unregister(d.W)
	} else {
		d.Obs[slot].gen.Unregister(d.W)
	}
}

// onEvent is the body of every observer callback.
func (d *Drv) onEvent(slot int, spec *ObsSpec, h ecs.Entity, ptrs typed.Ptrs) {
	d.Stat.ObsFired++
	if i := d.regDuringIdx(slot); i >= 0 && d.regDuring[i].ev == spec.Ev && d.regDuring[i].h == h {
		// whether an observer is called must not depend on what else is (or was) registered: the dispatch of this very
		// event had begun before the observer existed
		d.viol("C08", "called-for-earlier-event", "observer %d, registered from inside a callback for %v of %v, was called for that same event of that same entity (%s)", slot, spec.Ev, h, d.cur.Op.K)
	}
	if d.isUnregDuring(slot) {
		// Unregister returned earlier during this operation (from inside a callback): the observer is not registered
		// any more, whatever the dispatch in progress had planned
		d.viol("C08", "called-after-unregister", "observer %d (%v) was called after it had been unregistered from inside a callback of the same operation (%s)", slot, spec.Ev, d.cur.Op.K)
	}
	var id EID
	ok := true
	if h.IsZero() {
		id = ZeroE
	} else {
		id, ok = d.resolve(h)
	}
	d.fired = append(d.fired, firedRec{slot: slot, e: id, ok: ok})
	if !ok {
		d.viol("C09", "event-unknown-entity", "observer %d (%v) called for unknown handle %v", slot, spec.Ev, h)
		return
	}
	x := d.cur
	if x == nil {
		d.viol("C08", "event-outside-op", "observer %d called outside any operation", slot)
		return
	}
	// typed observers: pointers must address the reported entity's components in parameter order
	if spec.Tuple >= 0 && id != ZeroE {
		d.checkPtrs(h, TupleComps(spec.Tuple), ptrs, fmt.Sprintf("Observer%d callback", len(TupleComps(spec.Tuple))))
	}
	// lock state inside the callback (cheap, so not only in probes): locked during removal and batch callbacks,
	// the caller's lock state otherwise
	if !h.IsZero() || spec.Ev >= EvCustom0 {
		wantLocked := spec.Ev.IsBefore() || x.LockedCb || d.M.Locks > 0 || d.leaked
		if d.W.IsLocked() != wantLocked {
			d.viol("C09", "callback-lock-state", "observer %d (%v) during %s: IsLocked=%v, documented %v", slot, spec.Ev, x.Op.K, d.W.IsLocked(), wantLocked)
		} else if wantLocked {
			d.structuralRejected("observer callback")
		}
	}
	d.statsInCallback(fmt.Sprintf("an observer callback (%v) during %s", spec.Ev, x.Op.K))
	d.poke("observer callback during " + x.Op.K.String())
	if !spec.Ev.IsBefore() && x.Op.Leak != nil && !d.leaked && leakKinds[x.Op.K] {
		// after-events fire when the operation's structural work is done: a query opened here may stay open
		d.leaked = true
		d.openQuery(x.Op.Leak)
	}
	if spec.Probe && !d.NoProbe && d.Headroom() {
		d.probe(slot, spec, id, h)
	}
	if spec.UnregSelf && d.M.Obs[slot].Registered && !d.isUnregDuring(slot) {
		d.unregDuring = append(d.unregDuring, slot)
		d.unregObs(slot)
	}
	if spec.UnregOther >= 0 && spec.UnregOther < len(d.M.Obs) && d.M.Obs[spec.UnregOther].Registered && !d.isUnregDuring(spec.UnregOther) {
		d.unregDuring = append(d.unregDuring, spec.UnregOther)
		d.unregObs(spec.UnregOther)
	}
	if s := spec.RegNext - 1; s >= 0 && s != slot && (s >= len(d.M.Obs) || !d.M.Obs[s].Registered) && !d.isUnregDuring(s) && d.regDuringIdx(s) < 0 && len(d.regDuring) < 2 {
		// a fresh wildcard observer of the same event type is registered from inside the callback: from the next dispatch
		// on it fires like any other; the event being dispatched right now was there before it
		ns := ObsSpec{Ev: spec.Ev, Tuple: -1, UnregOther: -1}
		d.regDuring = append(d.regDuring, RegRec{Slot: s, Spec: ns, ev: spec.Ev, h: h})
		d.Stat.RegInCallback++
		d.regObsWith(s, &ns)
	}
}

// RegRec records an observer registered from inside a callback during the running op.
type RegRec struct {
	Slot int
	Spec ObsSpec
	ev   EvType
	h    ecs.Entity
}

func (d *Drv) regDuringIdx(slot int) int {
	for i := range d.regDuring {
		if d.regDuring[i].Slot == slot {
			return i
		}
	}
	return -1
}

// RegDuring lists the observers registered from inside callbacks during the last op.
func (d *Drv) RegDuring() []RegRec { return d.regDuring }

func (d *Drv) isUnregDuring(slot int) bool {
	for _, s := range d.unregDuring {
		if s == slot {
			return true
		}
	}
	return false
}

// UnregDuring lists observer slots unregistered from inside callbacks during the last op.
func (d *Drv) UnregDuring() []int { return d.unregDuring }

// probe runs the C09 in-callback checks.
func (d *Drv) probe(slot int, spec *ObsSpec, id EID, h ecs.Entity) {
	d.Stat.Probes++
	x := d.cur
	ev := spec.Ev
	before := ev.IsBefore()
	// the entity must be one the operation affects with this event type
	found := false
	for i := range x.Events {
		if x.Events[i].Ev == ev && x.Events[i].E == id {
			found = true
			break
		}
	}
	if !found {
		d.viol("C09", "event-wrong-entity", "observer %d (%v) called for EID %d which op %s does not affect with that event", slot, ev, id, x.Op.K)
		return
	}
	if id == ZeroE {
		return
	}
	if !d.W.Alive(h) {
		d.viol("C09", "event-dead-entity", "observer %d (%v): reported entity %v is not alive inside the callback", slot, ev, h)
		return
	}
	// lock state
	wantLocked := before || x.LockedCb || d.M.Locks > 0 || d.leaked
	if d.W.IsLocked() != wantLocked {
		d.viol("C09", "callback-lock-state", "observer %d (%v) during %s: IsLocked=%v, documented %v", slot, ev, x.Op.K, d.W.IsLocked(), wantLocked)
	}
	// component state of the reported entity: pre-state for removals, post-state otherwise
	var st MEnt
	if before {
		st = d.M.Ents[id]
	} else {
		st = x.PostOf(d.M, id)
	}
	d.checkEntity(id, h, &st, "C09", fmt.Sprintf("inside %v callback of %s", ev, x.Op.K))
	// batch: every other entity of the batch is still unchanged (removal) / already changed (others)
	others := x.Sel
	if len(x.NewE) > 1 {
		others = x.NewE
	}
	if len(others) > 1 {
		n := 0
		for _, o := range others {
			if o == id || int(o) >= len(d.H) || d.H[o].IsZero() {
				continue
			}
			var os MEnt
			if before {
				os = d.M.Ents[o]
			} else {
				os = x.PostOf(d.M, o)
			}
			if !os.Alive {
				continue // removed by RemoveEntities after the callbacks
			}
			d.checkEntity(o, d.H[o], &os, "C09", fmt.Sprintf("batch peer inside %v callback of %s", ev, x.Op.K))
			n++
			if n >= 6 {
				break
			}
		}
	}
	// the entity appears exactly once in queries
	wantAlive := d.M.NAlive
	if !before {
		wantAlive += len(x.NewE)
	}
	f0 := ecs.NewFilter0(d.W)
	q := f0.Query()
	cnt := q.Count()
	seen, total := 0, 0
	for q.Next() {
		total++
		if q.Entity() == h {
			seen++
		}
		if total > 10*wantAlive+100 {
			q.Close()
			break
		}
	}
	if seen != 1 {
		d.viol("C09", "callback-query-multiplicity", "inside %v callback of %s: entity %v visited %d times by a Filter0 query", ev, x.Op.K, h, seen)
	}
	if total != wantAlive || cnt != wantAlive {
		d.viol("C09", "callback-query-count", "inside %v callback of %s: Filter0 query visited %d / Count %d, expected %d alive", ev, x.Op.K, total, cnt, wantAlive)
	}
	uf := ecs.NewUnsafeFilter(d.W, d.ids(st.Mask.List())...).Exclusive()
	uq := uf.Query()
	seen = 0
	total = 0
	for uq.Next() {
		total++
		if uq.Entity() == h {
			seen++
		}
		if total > 10*wantAlive+100 {
			uq.Close()
			break
		}
	}
	if seen != 1 {
		d.viol("C09", "callback-query-multiplicity", "inside %v callback of %s: entity %v visited %d times by a query for its own composition %v", ev, x.Op.K, h, seen, st.Mask)
	}
	// a structural operation must be rejected while locked
	if wantLocked && d.W.IsLocked() {
		func() {
			defer func() {
				if recover() == nil {
					d.viol("C07", "structural-in-callback", "NewEntity succeeded inside a locked %v callback", ev)
				}
			}()
			d.W.NewEntity()
		}()
	}
}

// judgeObservers compares the callbacks observed during the last op with the oracle.
// reg is the registration state at the beginning of the op.
func (d *Drv) judgeObservers(x *Exp, reg []bool, res Result) {
	if len(d.M.Obs) == 0 && len(d.fired) == 0 {
		return
	}
	type key struct {
		slot int
		e    EID
	}
	got := map[key]int{}
	for _, f := range d.fired {
		if f.ok {
			got[key{f.slot, f.e}]++
		}
	}
	if res.Panicked && !x.Panic {
		return // reported separately
	}
	for slot := range d.M.Obs {
		o := &d.M.Obs[slot]
		if !o.Used {
			continue
		}
		wasReg := slot < len(reg) && reg[slot]
		touched := d.touched[slot]
		// expected count per entity
		want := map[EID]int{}
		may := map[EID]bool{}
		if wasReg && !x.Panic {
			for i := range x.Events {
				ev := &x.Events[i]
				d.Stat.EvSeen[ev.Ev]++
				must, m := ShouldFire(&o.Spec, ev)
				if must {
					want[ev.E]++
				} else if m {
					may[ev.E] = true
				}
			}
		}
		for e, n := range want {
			d.Stat.ObsJudged++
			g := got[key{slot, e}]
			if g == n {
				continue
			}
			if touched && g < n {
				d.Stat.ObsMay++
				continue // (un)registered during the dispatch: documentation is silent
			}
			if may[e] && g > n {
				d.Stat.ObsMay++
				continue
			}
			d.viol("C08", "observer-count", "observer %d %+v: %d callbacks for EID %d during %s, expected %d (events %s)", slot, o.Spec, g, e, x.Op, n, fmtEvents(x.Events, e))
		}
		for k, g := range got {
			if k.slot != slot {
				continue
			}
			if _, ok := want[k.e]; ok {
				continue
			}
			d.Stat.ObsJudged++
			if may[k.e] {
				d.Stat.ObsMay++
				continue
			}
			if !wasReg && touched {
				d.Stat.ObsMay++
				continue // registered during this op
			}
			d.viol("C08", "observer-spurious", "observer %d %+v (registered=%v): %d unexpected callbacks for EID %d during %s (events %s)", slot, o.Spec, wasReg, g, k.e, x.Op, fmtEvents(x.Events, k.e))
		}
		// count silent "must not" judgements too
		if wasReg {
			for i := range x.Events {
				ev := &x.Events[i]
				if _, ok := want[ev.E]; !ok {
					d.Stat.ObsJudged++
				}
			}
		}
	}
}

func fmtEvents(evs []MEvent, e EID) string {
	s := ""
	for _, ev := range evs {
		if ev.E == e {
			s += fmt.Sprintf("[%v changed=%v ctx=%v]", ev.Ev, ev.Changed, ev.Ctx)
		}
	}
	return s
}

// ---------------------------------------------------------------- batch monitor

func (d *Drv) checkBatch(x *Exp) {
	if d.cbSeen == nil {
		return
	}
	set := x.Sel
	if len(x.NewE) > 0 {
		set = x.NewE
	}
	inSet := map[EID]bool{}
	for _, e := range set {
		inSet[e] = true
		n := d.cbSeen[e]
		if n == 1 {
			continue
		}
		if n == 0 && x.CbMay && x.Unchanged[e] {
			continue
		}
		d.viol("C06", "batch-cb-count", "batch callback ran %d times for selected EID %d during %s", n, e, x.Op)
	}
	for e, n := range d.cbSeen {
		if !inSet[e] {
			d.viol("C06", "batch-cb-unselected", "batch callback ran %d times for EID %d which the filter does not select, during %s", n, e, x.Op)
		}
	}
}

// ---------------------------------------------------------------- state sweep

// checkEntity compares one alive entity with a model state via the ID-based API.
func (d *Drv) checkEntity(id EID, h ecs.Entity, st *MEnt, prop, where string) bool {
	ok := true
	d.Stat.EntChecks++
	for c := 0; c < u.N; c++ {
		has := d.U.Has(h, d.ID[c])
		if has != st.Mask.Has(c) {
			d.viol(prop, "component-set", "%s: EID %d %v Has(%s)=%v, model %v (model mask %v)", where, id, h, typeName(c), has, st.Mask.Has(c), st.Mask)
			ok = false
			continue
		}
		if !has {
			continue
		}
		d.Stat.CompChecks++
		p := d.U.Get(h, d.ID[c])
		if p == nil {
			d.viol(prop, "nil-pointer", "%s: EID %d Get(%s) returned nil", where, id, typeName(c))
			ok = false
			continue
		}
		v, cons := u.Types[c].Dec(p)
		if !cons || v != st.Val[c] {
			d.viol(prop, "component-value", "%s: EID %d %v component %s reads %d (consistent=%v), model %d", where, id, h, typeName(c), v, cons, st.Val[c])
			ok = false
		}
		if st.Val[c] == 0 {
			d.Stat.ZeroChecks++
		}
		if u.Types[c].IsRel {
			t := d.U.GetRelation(h, d.ID[c])
			want := d.h(st.Tgt[c])
			if t != want {
				d.viol("C04", "relation-target", "%s: EID %d %v relation %s target %v, model EID %d = %v", where, id, h, typeName(c), t, st.Tgt[c], want)
				ok = false
			}
			if !t.IsZero() && !d.W.Alive(t) {
				d.viol("C04", "dead-target", "%s: EID %d relation %s points at dead entity %v", where, id, typeName(c), t)
				ok = false
			}
		}
	}
	return ok
}

// Sweep compares the whole world with the model. deep additionally uses the typed access paths.
func (d *Drv) Sweep(deep bool) {
	m := d.M
	d.Stat.Sweeps++
	for i := m.Epoch0; i < len(m.Ents); i++ {
		id := EID(i)
		if i >= len(d.H) || d.H[i].IsZero() {
			continue
		}
		h := d.H[i]
		st := &m.Ents[i]
		alive := d.W.Alive(h)
		if alive != st.Alive {
			d.viol("C02", "alive", "EID %d %v Alive=%v, model %v", id, h, alive, st.Alive)
			continue
		}
		if !alive {
			continue
		}
		d.Stat.Masks[st.Mask] = true
		if !d.checkEntity(id, h, st, "C01", "sweep") {
			continue
		}
		ids := d.U.IDs(h)
		if ids.Len() != st.Mask.Len() {
			d.viol("C01", "ids-len", "EID %d IDs().Len()=%d, model %d", id, ids.Len(), st.Mask.Len())
		} else {
			for k := 0; k < ids.Len(); k++ {
				found := false
				for _, c := range st.Mask.List() {
					if d.ID[c] == ids.Get(k) {
						found = true
					}
				}
				if !found {
					d.viol("C01", "ids-content", "EID %d IDs() contains %v not in model mask %v", id, ids.Get(k), st.Mask)
				}
			}
		}
		for k, lid := range d.LateID {
			if d.U.Has(h, lid) || lateTypes[d.lateUsed[k]].has(d, h) {
				d.viol("C18", "late-type-has", "EID %d has late component %v which no operation added", id, lid)
			}
		}
		if deep {
			d.deepEntity(id, h, st)
		}
	}
	// handles of entities removed by Reset are not alive (C02, C16): checked for handles whose ID has not been issued again
	// since the Reset (once the ID is in use again, an old ID/generation pair is indistinguishable from a current or
	// future handle by design)
	if m.Epoch0 > 0 {
		maxID := d.foreignMaxID
		for i := m.Epoch0; i < len(d.H); i++ {
			if !d.H[i].IsZero() && d.H[i].ID() > maxID {
				maxID = d.H[i].ID()
			}
		}
		n := 0
		for i := m.Epoch0 - 1; i >= 0 && n < 6; i-- {
			if i >= len(d.H) || d.H[i].IsZero() || d.H[i].ID() <= maxID {
				continue
			}
			n++
			d.Stat.EntChecks++
			if d.W.Alive(d.H[i]) {
				d.viol("C16", "alive-after-reset", "handle %v of an entity removed by Reset (EID %d) is reported alive", d.H[i], i)
				break
			}
		}
	}
	// the component registry keeps what it said about every universe type (C18)
	for c := 0; c < u.N; c++ {
		info, ok := ecs.ComponentInfo(d.W, d.ID[c])
		if !ok || info.Type != u.Types[c].RT || info.IsRelation != u.Types[c].IsRel || info.ID != d.ID[c] {
			d.viol("C18", "component-info", "ComponentInfo(%s) = %+v ok=%v, registered as relation=%v", typeName(c), info, ok, u.Types[c].IsRel)
		}
	}
	// resources behave as a map from type to value (C16: none survive Reset)
	for c := 0; c < u.N; c++ {
		t := &u.Types[c]
		want := m.Res.Has(c)
		if t.HasRes(d.W) != want {
			d.viol("C16", "resource-presence", "resource %s Has=%v, model %v", t.Name, t.HasRes(d.W), want)
			continue
		}
		if want {
			if v, ok, present := t.GetRes(d.W); !present || !ok || v != m.ResVal[c] {
				d.viol("C16", "resource-value", "resource %s reads %d (present=%v consistent=%v), model %d", t.Name, v, present, ok, m.ResVal[c])
			}
		}
	}
	// alive count via Filter0 (needs a free lock bit: at most 64 queries may be open)
	if d.Headroom() {
		f0 := ecs.NewFilter0(d.W)
		q := f0.Query()
		cnt := q.Count()
		q.Close()
		if cnt != m.NAlive {
			d.viol("C02", "alive-count", "Filter0 Count()=%d, model alive %d", cnt, m.NAlive)
		}
	}
	d.Stat.LockChecks++
	if !d.ForceUnsafe && d.W.IsLocked() != (m.Locks > 0) { // the ID-based twin does not mirror query ops
		d.viol("C07", "lock-state", "IsLocked()=%v with %d open queries in the model", d.W.IsLocked(), m.Locks)
	}
}

// deepEntity reads the entity through Map[T] and a covering MapN and compares pointer identity.
func (d *Drv) deepEntity(id EID, h ecs.Entity, st *MEnt) {
	for c := 0; c < u.N; c++ {
		mp := d.Maps[c]
		if mp.Has(h) != st.Mask.Has(c) || mp.HasUnchecked(h) != st.Mask.Has(c) {
			d.viol("C14", "map-has", "EID %d Map[%s].Has=%v, model %v", id, typeName(c), mp.Has(h), st.Mask.Has(c))
			continue
		}
		if !st.Mask.Has(c) {
			if p := mp.Get(h); p != nil {
				d.viol("C14", "map-get-missing", "EID %d Map[%s].Get returned %p for a missing component", id, typeName(c), p)
			}
			continue
		}
		want := d.U.Get(h, d.ID[c])
		if p := mp.Get(h); p != want {
			d.viol("C14", "map-get", "EID %d Map[%s].Get=%p, Unsafe.Get=%p", id, typeName(c), p, want)
		}
		if p := mp.GetUnchecked(h); p != want {
			d.viol("C14", "map-get", "EID %d Map[%s].GetUnchecked=%p, Unsafe.Get=%p", id, typeName(c), p, want)
		}
		if u.Types[c].IsRel {
			if t := mp.GetRelation(h); t != d.h(st.Tgt[c]) {
				d.viol("C14", "map-relation", "EID %d Map[%s].GetRelation=%v, model %v", id, typeName(c), t, d.h(st.Tgt[c]))
			}
			if t := mp.GetRelationUnchecked(h); t != d.h(st.Tgt[c]) {
				d.viol("C14", "map-relation", "EID %d Map[%s].GetRelationUnchecked=%v, model %v", id, typeName(c), t, d.h(st.Tgt[c]))
			}
		}
	}
	// one typed tuple per entity, rotating
	t := (int(id) + d.opIdx) % len(typed.Tuples)
	cs := TupleComps(t)
	tm := d.TMap(t)
	all := st.Mask.Contains(SetOf(cs...))
	if tm.HasAll(h) != all {
		d.viol("C14", "hasall", "EID %d Map%d%v.HasAll=%v, model %v", id, len(cs), names(cs), tm.HasAll(h), all)
	}
	ptrs := tm.Get(h)
	for j, c := range cs {
		var want unsafe.Pointer
		if st.Mask.Has(c) {
			want = d.U.Get(h, d.ID[c])
		}
		if ptrs[j] != want {
			d.viol("C14", "mapn-get", "EID %d Map%d%v.Get()[%d] (%s)=%p, Unsafe.Get=%p", id, len(cs), names(cs), j, typeName(c), ptrs[j], want)
		}
	}
	if all {
		for j, c := range cs {
			if u.Types[c].IsRel {
				if tg := tm.GetRelation(h, j); tg != d.h(st.Tgt[c]) {
					d.viol("C14", "mapn-relation", "EID %d Map%d%v.GetRelation(%d)=%v, model %v", id, len(cs), names(cs), j, tg, d.h(st.Tgt[c]))
				}
				if tg := tm.GetRelationUnchecked(h, j); tg != d.h(st.Tgt[c]) {
					d.viol("C14", "mapn-relation", "EID %d Map%d%v.GetRelationUnchecked(%d)=%v, model %v", id, len(cs), names(cs), j, tg, d.h(st.Tgt[c]))
				}
			}
		}
	}
}

// ---------------------------------------------------------------- queries

type qres struct {
	ents  []ecs.Entity
	count int
	panic any
}

func (d *Drv) limit() int { return 10*d.M.NAlive + 100 }

// runTyped runs a typed filter's query and checks per-entity data.
func (d *Drv) runTyped(f typed.TFilter, spec *FSpec, qrels []RelT, prop string) (r qres) {
	defer func() {
		if p := recover(); p != nil {
			r.panic = p
		}
	}()
	order := d.filterOrder(spec)
	q := f.Query(d.rels(qrels, order, d.opIdx%3))
	r.count = q.Count()
	lim := d.limit()
	cs := f.Comps()
	for q.Next() {
		h := q.Entity()
		r.ents = append(r.ents, h)
		if len(r.ents) > lim {
			q.Close()
			d.viol(prop, "query-runaway", "query %s visited more than %d entities", spec, lim)
			return
		}
		if len(cs) > 0 {
			ptrs := q.Get()
			if d.W.Alive(h) {
				for j, c := range cs {
					if d.U.Has(h, d.ID[c]) {
						if want := d.U.Get(h, d.ID[c]); ptrs[j] != want {
							d.viol(prop, "query-ptr", "query %s: Get()[%d] (%s) for %v is %p, random access gives %p", spec, j, typeName(c), h, ptrs[j], want)
						}
					}
					if u.Types[c].IsRel {
						if id, ok := d.ByH[h]; ok && d.M.Ents[id].Alive {
							if t := q.GetRelation(j); t != d.h(d.M.Ents[id].Tgt[c]) {
								d.viol(prop, "query-relation", "query %s: GetRelation(%d) for %v is %v, model %v", spec, j, h, t, d.h(d.M.Ents[id].Tgt[c]))
							}
						}
					}
				}
			}
		}
	}
	// EntityAt on a second query (the first is closed now)
	if len(r.ents) > 0 {
		q2 := f.Query(d.rels(qrels, order, d.opIdx%3))
		for _, i := range sampleIdx(len(r.ents), d.opIdx) {
			if h := q2.EntityAt(i); h != r.ents[i] {
				d.viol(prop, "entity-at", "query %s: EntityAt(%d)=%v, %d-th visited is %v", spec, i, h, i, r.ents[i])
			}
		}
		q2.Close()
		q2.Close() // closing again is documented harmless
	}
	return r
}

func sampleIdx(n, salt int) []int {
	if n <= 4 {
		r := make([]int, n)
		for i := range r {
			r[i] = i
		}
		return r
	}
	return []int{0, n - 1, (salt * 7) % n, (salt*13 + 5) % n}
}

// runUnsafe runs an unsafe query and checks per-entity data.
func (d *Drv) runUnsafe(spec *FSpec, qrels []RelT, prop string) (r qres) {
	defer func() {
		if p := recover(); p != nil {
			r.panic = p
		}
	}()
	uf := d.buildUnsafe(spec)
	all := append(append([]RelT{}, spec.Rels...), qrels...)
	q := uf.Query(d.rels(all, nil, d.opIdx%2)...)
	r.count = q.Count()
	lim := d.limit()
	req := spec.Required().List()
	for q.Next() {
		h := q.Entity()
		r.ents = append(r.ents, h)
		if len(r.ents) > lim {
			q.Close()
			d.viol(prop, "query-runaway", "unsafe query %s visited more than %d entities", spec, lim)
			return
		}
		if !d.W.Alive(h) {
			continue
		}
		id, known := d.ByH[h]
		for _, c := range req {
			if !q.Has(d.ID[c]) {
				d.viol(prop, "query-has", "unsafe query %s: Has(%s)=false for a required component", spec, typeName(c))
				continue
			}
			if want := d.U.Get(h, d.ID[c]); q.Get(d.ID[c]) != want {
				d.viol(prop, "query-ptr", "unsafe query %s: Get(%s) for %v is %p, random access gives %p", spec, typeName(c), h, q.Get(d.ID[c]), want)
			}
			if u.Types[c].IsRel && known && d.M.Ents[id].Alive {
				if t := q.GetRelation(d.ID[c]); t != d.h(d.M.Ents[id].Tgt[c]) {
					d.viol(prop, "query-relation", "unsafe query %s: GetRelation(%s) for %v is %v, model %v", spec, typeName(c), h, t, d.h(d.M.Ents[id].Tgt[c]))
				}
			}
		}
		if known && d.M.Ents[id].Alive {
			// a component the entity has although the filter does not ask for it is readable through the query as well
			// ("if q.Has(id) { q.Get(id) }")
			for _, c := range d.M.Ents[id].Mask.List() {
				if spec.Required().Has(c) {
					continue
				}
				if !q.Has(d.ID[c]) {
					d.viol(prop, "query-has", "unsafe query %s: Has(%s)=false for a component %v has", spec, typeName(c), h)
				} else if want := d.U.Get(h, d.ID[c]); q.Get(d.ID[c]) != want {
					d.viol(prop, "query-ptr", "unsafe query %s: Get(%s) (not among the filter's components) for %v is %p, random access gives %p", spec, typeName(c), h, q.Get(d.ID[c]), want)
				}
				break // one per entity
			}
			qids := q.IDs()
			if n := qids.Len(); n != d.M.Ents[id].Mask.Len() {
				d.viol(prop, "query-ids", "unsafe query %s: IDs().Len()=%d for %v, model %d", spec, n, h, d.M.Ents[id].Mask.Len())
			}
		}
	}
	if len(r.ents) > 0 {
		q2 := uf.Query(d.rels(all, nil, d.opIdx%2)...)
		for _, i := range sampleIdx(len(r.ents), d.opIdx) {
			if h := q2.EntityAt(i); h != r.ents[i] {
				d.viol(prop, "entity-at", "unsafe query %s: EntityAt(%d)=%v, %d-th visited is %v", spec, i, h, i, r.ents[i])
			}
		}
		q2.Close()
		q2.Close()
	}
	return r
}

// judgeQuery compares a query result with the model's result set.
func (d *Drv) judgeQuery(r qres, spec *FSpec, qrels []RelT, prop, what string, deadTarget bool) {
	d.Stat.Queries++
	d.Stat.FilterSpecs[spec.String()] = true
	if r.panic != nil {
		if deadTarget {
			return // a query (not a mutation) given a dead relation target may panic
		}
		d.viol(prop, "query-panic", "%s %s qrels=%v panicked: %v", what, spec, qrels, r.panic)
		return
	}
	want := d.M.Select(spec, qrels)
	d.Stat.QueryEnts += int64(len(r.ents))
	seen := map[ecs.Entity]int{}
	for _, h := range r.ents {
		seen[h]++
	}
	for _, e := range want {
		h := d.h(e)
		if seen[h] != 1 {
			d.viol(prop, "query-multiplicity", "%s %s qrels=%v visited matching EID %d %v %d times (result size %d, expected %d)", what, spec, qrels, e, h, seen[h], len(r.ents), len(want))
		}
		delete(seen, h)
	}
	for h, n := range seen {
		id, ok := d.ByH[h]
		d.viol(prop, "query-extra", "%s %s qrels=%v visited non-matching entity %v (EID %d known=%v) %d times", what, spec, qrels, h, id, ok, n)
	}
	if r.count != len(r.ents) {
		d.viol(prop, "query-count", "%s %s qrels=%v Count()=%d but %d entities visited (model %d)", what, spec, qrels, r.count, len(r.ents), len(want))
	}
}

func (d *Drv) hasDeadTarget(rs ...[]RelT) bool {
	for _, l := range rs {
		for _, r := range l {
			if r.T != ZeroE && !d.M.Ents[r.T].Alive {
				return true
			}
		}
	}
	return false
}

// Headroom reports whether monitors may open queries of their own without exceeding the 64-query limit.
func (d *Drv) Headroom() bool { return d.M.Locks <= 56 }

// CompareQuery runs an ad-hoc filter through the API kind named in the spec and judges it.
func (d *Drv) CompareQuery(spec *FSpec, qrels []RelT) {
	if !d.Headroom() {
		return
	}
	dead := d.hasDeadTarget(spec.Rels, qrels)
	if spec.Kind == FUnsafe {
		r := d.runUnsafe(spec, qrels, "C03")
		d.judgeQuery(r, spec, qrels, "C03", "unsafe query", dead)
		return
	}
	var f typed.TFilter
	var bp any
	func() {
		defer func() { bp = recover() }()
		f = d.buildTyped(spec)
	}()
	if bp != nil {
		if !dead {
			d.viol("C03", "filter-panic", "building filter %s panicked: %v", spec, bp)
		}
		return
	}
	r := d.runTyped(f, spec, qrels, "C03")
	d.judgeQuery(r, spec, qrels, "C03", "typed query", dead)
}

// CompareStanding compares every standing filter's registered instance and unregistered twin with the model and each other.
func (d *Drv) CompareStanding(qrelsFor func(spec *FSpec) []RelT) {
	if !d.Headroom() {
		return
	}
	for i := range d.M.Filters {
		mf := &d.M.Filters[i]
		if !mf.Used || i >= len(d.SF) || d.SF[i].inst == nil {
			continue
		}
		var qrels []RelT
		if qrelsFor != nil {
			qrels = qrelsFor(&mf.Spec)
		}
		dead := d.hasDeadTarget(qrels)
		a := d.runTyped(d.SF[i].inst, &mf.Spec, qrels, "C05")
		b := d.runTyped(d.SF[i].twin, &mf.Spec, qrels, "C05")
		what := "unregistered filter instance"
		if mf.Registered {
			what = "registered (cached) filter"
		}
		d.judgeQuery(a, &mf.Spec, qrels, "C05", what, dead)
		d.judgeQuery(b, &mf.Spec, qrels, "C05", "unregistered twin", dead)
		d.Stat.CachedCmp++
		if a.panic == nil && b.panic == nil {
			if a.count != b.count || len(a.ents) != len(b.ents) {
				d.viol("C05", "cached-vs-uncached", "filter %s registered=%v: cached Count/len %d/%d, twin %d/%d", &mf.Spec, mf.Registered, a.count, len(a.ents), b.count, len(b.ents))
			} else {
				sa := sortedEnts(a.ents)
				sb := sortedEnts(b.ents)
				for k := range sa {
					if sa[k] != sb[k] {
						d.viol("C05", "cached-vs-uncached", "filter %s registered=%v: entity sets differ (%v vs %v)", &mf.Spec, mf.Registered, sa[k], sb[k])
						break
					}
				}
			}
		}
	}
}

func sortedEnts(e []ecs.Entity) []ecs.Entity {
	r := append([]ecs.Entity{}, e...)
	sort.Slice(r, func(i, j int) bool {
		if r[i].ID() != r[j].ID() {
			return r[i].ID() < r[j].ID()
		}
		return r[i].Gen() < r[j].Gen()
	})
	return r
}

// ---------------------------------------------------------------- query slots (lock discipline)

func (d *Drv) openQuery(op *Op) {
	for len(d.Q) <= op.Slot {
		d.Q = append(d.Q, queryInst{})
	}
	spec := d.M.filterOf(op)
	qi := queryInst{open: true, spec: spec, seen: map[ecs.Entity]int{}}
	if op.SF >= 0 {
		f := d.SF[op.SF].twin
		if op.Cached || (!d.M.Filters[op.SF].Registered && d.opIdx%2 == 0) {
			f = d.SF[op.SF].inst
		}
		qi.tq = f.Query(d.rels(op.QRels, d.filterOrder(spec), d.opIdx%3))
	} else if spec.Kind == FUnsafe {
		uf := d.buildUnsafe(spec)
		all := append(append([]RelT{}, spec.Rels...), op.QRels...)
		q := uf.Query(d.rels(all, nil, d.opIdx%2)...)
		qi.uq = &q
	} else {
		f := d.buildTyped(spec)
		qi.tq = f.Query(d.rels(op.QRels, d.filterOrder(spec), d.opIdx%3))
	}
	d.Q[op.Slot] = qi
	if n := int64(d.M.Locks + 1); n > d.Stat.MaxOpenQ {
		d.Stat.MaxOpenQ = n
	}
}

// stepQuery advances a query slot by op.N steps; reports exhaustion through d.exhausted.
func (d *Drv) stepQuery(op *Op) {
	qi := &d.Q[op.Slot]
	mq := &d.M.Queries[op.Slot]
	for k := 0; k < op.N; k++ {
		var ok bool
		var h ecs.Entity
		if qi.uq != nil {
			ok = qi.uq.Next()
			if ok {
				h = qi.uq.Entity()
			}
		} else {
			ok = qi.tq.Next()
			if ok {
				h = qi.tq.Entity()
			}
		}
		if !ok {
			qi.open = false
			d.exhausted = append(d.exhausted, op.Slot)
			// the result must be exactly the set expected when the query was opened
			if len(qi.seen) != len(mq.Expect) {
				d.viol("C03", "open-query-result", "query slot %d (%s) finished after %d distinct entities, expected %d", op.Slot, qi.spec, len(qi.seen), len(mq.Expect))
			}
			for _, e := range mq.Expect {
				if qi.seen[d.h(e)] != 1 {
					d.viol("C03", "open-query-result", "query slot %d (%s) visited EID %d %d times", op.Slot, qi.spec, e, qi.seen[d.h(e)])
				}
			}
			// closing a finished query again is harmless
			if qi.uq != nil {
				qi.uq.Close()
			} else {
				qi.tq.Close()
			}
			return
		}
		qi.seen[h]++
		qi.steps++
		if qi.steps > d.limit() {
			d.viol("C03", "query-runaway", "query slot %d (%s) exceeded %d steps", op.Slot, qi.spec, d.limit())
			return
		}
		// write through the query's pointers (documented to work while locked)
		if op.Sub == 1 && len(op.Add) > 0 {
			id, known := d.ByH[h]
			if known && id == op.E {
				if qi.uq != nil {
					for j, c := range op.Add {
						u.Types[c].Enc(qi.uq.Get(d.ID[c]), op.Vals[j])
					}
				}
			}
		}
	}
}

func (d *Drv) closeQuery(op *Op) {
	qi := &d.Q[op.Slot]
	if qi.uq != nil {
		qi.uq.Close()
		if op.Sub == 1 {
			qi.uq.Close()
		}
	} else {
		qi.tq.Close()
		if op.Sub == 1 {
			qi.tq.Close()
		}
	}
	qi.open = false
}

// Exhausted returns (and clears) the query slots that finished during the last op.
func (d *Drv) Exhausted() []int {
	r := d.exhausted
	d.exhausted = nil
	return r
}
