package eng

import u "verifharness/universe"

// weights helper
func wts(pairs ...int) [NKinds]int {
	var w [NKinds]int
	for i := 0; i+1 < len(pairs); i += 2 {
		w[pairs[i]] = pairs[i+1]
	}
	return w
}

func base() Profile {
	return Profile{
		MaxAlive: 80, RelPct: 50, TypedPct: 40, HotComps: 8, MaxComps: 5, FilterSlots: 0, QuerySlots: 0, ObsSlots: 0,
		TargetPool: 6, MaxBatchNew: 12,
	}
}

// Profiles by name.
var Profiles = map[string]func() Profile{
	"general": func() Profile {
		p := base()
		p.Name = "general"
		p.W = wts(int(KNewEntity), 14, int(KNewBatch), 5, int(KAdd), 14, int(KRemove), 12, int(KExchange), 10, int(KSet), 5, int(KWrite), 8,
			int(KSetRel), 5, int(KCopy), 4, int(KRemoveEntity), 8, int(KAddBatch), 4, int(KRemoveBatch), 4, int(KExchangeBatch), 3,
			int(KSetRelBatch), 3, int(KRemoveEntities), 3, int(KReset), 1, int(KShrink), 3, int(KRegFilter), 1, int(KUnregFilter), 1,
			int(KMisuse), 4) // rejected calls in between: the next valid call must not see anything of them
		p.FilterSlots = 3
		return p
	},
	"churn": func() Profile {
		p := base()
		p.Name = "churn"
		p.W = wts(int(KNewEntity), 30, int(KNewBatch), 8, int(KCopy), 8, int(KRemoveEntity), 34, int(KRemoveEntities), 6, int(KAdd), 4, int(KRemove), 2,
			int(KReset), 1, int(KShrink), 1, int(KSetRel), 6, int(KSetRelBatch), 2, int(KExchange), 2, int(KRemoveBatch), 3, int(KExchangeBatch), 2, int(KAddBatch), 2,
			int(KMisuse), 5) // rejected calls (creations among them) must not consume a handle
		p.MaxAlive = 24
		p.MaxComps = 2
		p.RelPct = 20
		p.MaxBatchNew = 8
		return p
	},
	"query": func() Profile {
		p := base()
		p.Name = "query"
		p.W = wts(int(KNewEntity), 14, int(KNewBatch), 5, int(KAdd), 12, int(KRemove), 10, int(KExchange), 8, int(KWrite), 3,
			int(KSetRel), 8, int(KCopy), 3, int(KRemoveEntity), 8, int(KAddBatch), 3, int(KRemoveBatch), 3, int(KExchangeBatch), 2,
			int(KSetRelBatch), 3, int(KRemoveEntities), 3, int(KReset), 1, int(KShrink), 3, int(KOpenQuery), 4, int(KStepQuery), 6, int(KCloseQuery), 2,
			int(KRegFilter), 4, int(KUnregFilter), 2)
		p.RelPct = 60
		p.QuerySlots = 6
		p.LeakPct = 10
		p.FilterSlots = 5
		p.HotComps = 7
		return p
	},
	"relation": func() Profile {
		p := base()
		p.Name = "relation"
		p.W = wts(int(KNewEntity), 16, int(KNewBatch), 5, int(KAdd), 10, int(KRemove), 8, int(KExchange), 6, int(KWrite), 3,
			int(KSetRel), 12, int(KCopy), 3, int(KRemoveEntity), 14, int(KAddBatch), 3, int(KRemoveBatch), 3, int(KExchangeBatch), 2,
			int(KSetRelBatch), 6, int(KRemoveEntities), 7, int(KReset), 1, int(KShrink), 3, int(KRegFilter), 2, int(KUnregFilter), 1,
			int(KMisuse), 4)
		p.RelPct = 95
		p.HotComps = 6
		p.TargetPool = 5
		p.MaxAlive = 60
		p.FilterSlots = 3
		p.MaxComps = 4
		return p
	},
	"cache": func() Profile {
		p := base()
		p.Name = "cache"
		p.W = wts(int(KNewEntity), 12, int(KNewBatch), 4, int(KAdd), 10, int(KRemove), 8, int(KExchange), 6,
			int(KSetRel), 8, int(KCopy), 2, int(KRemoveEntity), 10, int(KAddBatch), 3, int(KRemoveBatch), 3, int(KExchangeBatch), 2,
			int(KSetRelBatch), 4, int(KRemoveEntities), 4, int(KReset), 1, int(KShrink), 3, int(KRegFilter), 8, int(KUnregFilter), 6,
			int(KOpenQuery), 7, int(KStepQuery), 5, int(KCloseQuery), 2)
		p.RelPct = 80
		p.HotComps = 6
		p.TargetPool = 5
		p.FilterSlots = 8
		p.QuerySlots = 4
		p.MaxAlive = 60
		return p
	},
	"batch": func() Profile {
		p := base()
		p.Name = "batch"
		p.W = wts(int(KNewEntity), 12, int(KNewBatch), 10, int(KAdd), 8, int(KRemove), 6, int(KExchange), 4, int(KWrite), 3,
			int(KSetRel), 4, int(KCopy), 3, int(KRemoveEntity), 5, int(KAddBatch), 10, int(KRemoveBatch), 10, int(KExchangeBatch), 8,
			int(KSetRelBatch), 8, int(KRemoveEntities), 6, int(KReset), 1, int(KShrink), 1, int(KRegFilter), 3, int(KUnregFilter), 2,
			int(KSet), 5, int(KRegObs), 3, int(KUnregObs), 1, int(KMisuse), 4) // observers watch what each API variant reports (Map[T], MapN, ExchangeN, batches)
		p.RelPct = 60
		p.HotComps = 6
		p.FilterSlots = 4
		p.ObsSlots = 3
		p.TypedPct = 50
		return p
	},
	"lock": func() Profile {
		p := base()
		p.Name = "lock"
		p.W = wts(int(KNewEntity), 12, int(KNewBatch), 7, int(KAdd), 6, int(KRemove), 4, int(KExchange), 3, int(KSet), 4, int(KWrite), 5,
			int(KSetRel), 3, int(KRemoveEntity), 5, int(KRegFilter), 7, int(KUnregFilter), 6,
			int(KOpenQuery), 22, int(KStepQuery), 14, int(KCloseQuery), 10, int(KMisuse), 10, int(KEmit), 2, int(KStats), 1, int(KRemoveEntities), 1, int(KReset), 2,
			int(KAddBatch), 3, int(KRemoveBatch), 2, int(KRegObs), 5, int(KUnregObs), 3, int(KSetRelBatch), 4, int(KExchangeBatch), 2, int(KCopy), 1, int(KShrink), 1)
		p.QuerySlots = 64
		p.LeakPct = 35
		p.RelObsPct = 30
		p.RelBatchPct = 25
		p.FilterSlots = 4
		p.MaxAlive = 40
		p.ObsSlots = 4
		p.RelPct = 70
		return p
	},
	"observers": func() Profile {
		p := base()
		p.Name = "observers"
		p.W = wts(int(KNewEntity), 12, int(KNewBatch), 5, int(KAdd), 12, int(KRemove), 10, int(KExchange), 9, int(KSet), 8, int(KWrite), 1,
			int(KSetRel), 8, int(KCopy), 4, int(KRemoveEntity), 8, int(KAddBatch), 5, int(KRemoveBatch), 5, int(KExchangeBatch), 4,
			int(KSetRelBatch), 5, int(KRemoveEntities), 4, int(KRegObs), 10, int(KUnregObs), 6, int(KEmit), 8, int(KReset), 1)
		p.ObsSlots = 7
		p.HotComps = 6
		p.RelPct = 70
		p.MaxAlive = 30
		p.MaxComps = 4
		p.UnregInCbPct = 12
		p.TypedPct = 35
		return p
	},
	"callbacks": func() Profile {
		p := base()
		p.Name = "callbacks"
		p.W = wts(int(KNewEntity), 12, int(KNewBatch), 6, int(KAdd), 12, int(KRemove), 10, int(KExchange), 9, int(KSet), 6, int(KWrite), 1,
			int(KSetRel), 8, int(KCopy), 4, int(KRemoveEntity), 8, int(KAddBatch), 6, int(KRemoveBatch), 6, int(KExchangeBatch), 5,
			int(KSetRelBatch), 6, int(KRemoveEntities), 4, int(KRegObs), 8, int(KUnregObs), 3, int(KEmit), 4,
			int(KOpenQuery), 1, int(KStepQuery), 2, int(KCloseQuery), 1)
		p.ObsSlots = 5
		p.HotComps = 6
		p.RelPct = 70
		p.MaxAlive = 25
		p.MaxComps = 4
		p.ProbePct = 100
		p.QuerySlots = 2
		p.LeakPct = 25
		p.TypedPct = 35
		return p
	},
	"misuse": func() Profile {
		p := base()
		p.Name = "misuse"
		p.W = wts(int(KNewEntity), 14, int(KNewBatch), 3, int(KAdd), 10, int(KRemove), 8, int(KExchange), 5, int(KWrite), 3,
			int(KSetRel), 4, int(KCopy), 3, int(KRemoveEntity), 12, int(KRemoveEntities), 2, int(KMisuse), 30,
			int(KOpenQuery), 3, int(KStepQuery), 2, int(KCloseQuery), 3, int(KReset), 1, int(KRegFilter), 3, int(KUnregFilter), 2)
		p.QuerySlots = 3
		p.FilterSlots = 3
		p.MaxAlive = 30
		p.RelPct = 60
		return p
	},
	"shrink": func() Profile {
		p := base()
		p.Name = "shrink"
		p.W = wts(int(KNewEntity), 14, int(KNewBatch), 6, int(KAdd), 8, int(KRemove), 6, int(KExchange), 4, int(KWrite), 2,
			int(KSetRel), 10, int(KCopy), 2, int(KRemoveEntity), 12, int(KAddBatch), 3, int(KRemoveBatch), 3, int(KExchangeBatch), 2,
			int(KSetRelBatch), 5, int(KRemoveEntities), 5, int(KReset), 1, int(KShrink), 14, int(KRegFilter), 4, int(KUnregFilter), 2,
			int(KOpenQuery), 1, int(KStepQuery), 2, int(KCloseQuery), 1)
		p.RelPct = 90
		p.HotComps = 6
		p.TargetPool = 5
		p.FilterSlots = 5
		p.QuerySlots = 2
		p.MaxAlive = 60
		return p
	},
	// few archetypes, whole tables created, emptied, shrunk and refilled in bulk: tables grow past their initial capacity,
	// run empty, are reset with more than 64 rows, and are refilled by creations without initial values
	"bulk": func() Profile {
		p := base()
		p.Name = "bulk"
		p.W = wts(int(KNewEntity), 8, int(KNewBatch), 34, int(KRemoveEntities), 26, int(KShrink), 18, int(KRemoveEntity), 3, int(KWrite), 3,
			int(KAddBatch), 3, int(KRemoveBatch), 3, int(KExchangeBatch), 2, int(KReset), 1, int(KCopy), 2)
		p.MaxAlive = 320
		p.MaxBatchNew = 150
		p.HotComps = 2
		p.MaxComps = 1
		p.TypedPct = 8
		p.RelPct = 10
		p.DetShrink = false
		p.Caps = [][]int{{65}, {100}, {128}, {128, 65}, {70, 100}, {256}, {64}, {8}}
		return p
	},
	// scale: thousands of entities in few tables (several capacity doublings), hundreds of relation targets (hundreds of
	// relation tables per archetype), long free lists - counters and indices beyond 8 and 16 bits
	"scale": func() Profile {
		p := base()
		p.Name = "scale"
		p.W = wts(int(KNewEntity), 14, int(KNewBatch), 22, int(KSetRel), 28, int(KSetRelBatch), 6, int(KRemoveEntities), 6, int(KRemoveEntity), 10,
			int(KAddBatch), 4, int(KRemoveBatch), 4, int(KExchangeBatch), 3, int(KAdd), 5, int(KRemove), 4, int(KExchange), 3, int(KWrite), 3,
			int(KShrink), 3, int(KReset), 1, int(KRegFilter), 2, int(KUnregFilter), 1, int(KCopy), 2)
		p.MaxAlive = 2500
		p.MaxBatchNew = 900
		p.HotComps = 3
		p.MaxComps = 2
		p.RelPct = 85
		p.TargetPool = 400
		p.FilterSlots = 2
		p.TypedPct = 30
		p.Caps = [][]int{nil, {1}, {8, 1}, {64}, {300, 2}}
		return p
	},
	"reset": func() Profile {
		p := base()
		p.Name = "reset"
		p.W = wts(int(KNewEntity), 14, int(KNewBatch), 5, int(KAdd), 10, int(KRemove), 8, int(KExchange), 5, int(KSet), 3, int(KWrite), 2,
			int(KSetRel), 6, int(KCopy), 2, int(KRemoveEntity), 8, int(KAddBatch), 3, int(KRemoveBatch), 3,
			int(KSetRelBatch), 3, int(KRemoveEntities), 3, int(KReset), 4, int(KShrink), 2, int(KRegFilter), 5, int(KUnregFilter), 2,
			int(KRegObs), 6, int(KUnregObs), 2, int(KAddRes), 4, int(KRemoveRes), 2, int(KEmit), 2, int(KStats), 2,
			int(KOpenQuery), 4, int(KStepQuery), 4, int(KCloseQuery), 2, int(KMisuse), 2, int(KExchangeBatch), 2)
		p.RelPct = 70
		p.HotComps = 6
		p.FilterSlots = 5
		p.ObsSlots = 6
		p.QuerySlots = 8
		p.MaxAlive = 40
		return p
	},
	"gc": func() Profile {
		p := base()
		p.Name = "gc"
		p.W = wts(int(KNewEntity), 14, int(KNewBatch), 6, int(KAdd), 14, int(KRemove), 12, int(KExchange), 10, int(KSet), 6, int(KWrite), 8,
			int(KSetRel), 5, int(KCopy), 5, int(KRemoveEntity), 10, int(KAddBatch), 4, int(KRemoveBatch), 4, int(KExchangeBatch), 3,
			int(KSetRelBatch), 3, int(KRemoveEntities), 4, int(KReset), 1, int(KShrink), 4, int(KAddRes), 2, int(KRemoveRes), 2,
			int(KOpenQuery), 4, int(KStepQuery), 3, int(KCloseQuery), 2) // finished query objects stay reachable (their slots): they must not pin column memory
		p.QuerySlots = 4
		p.HotFixed = []int{u.IPtr, u.ISlc, u.IStr, u.IMp, u.IIfc, u.IMix, u.IR2, u.IP8, u.IZ0, u.IR1, u.IFn}
		p.RelPct = 60
		p.MaxAlive = 70
		p.MaxBatchNew = 20
		return p
	},
	"stats": func() Profile {
		p := base()
		p.Name = "stats"
		p.W = wts(int(KNewEntity), 14, int(KNewBatch), 5, int(KAdd), 10, int(KRemove), 8, int(KExchange), 5, int(KWrite), 2,
			int(KSetRel), 8, int(KCopy), 3, int(KRemoveEntity), 10, int(KAddBatch), 3, int(KRemoveBatch), 3, int(KExchangeBatch), 2,
			int(KSetRelBatch), 4, int(KRemoveEntities), 4, int(KReset), 1, int(KShrink), 4, int(KRegFilter), 3, int(KUnregFilter), 2,
			int(KRegObs), 3, int(KUnregObs), 2, int(KStats), 8, int(KOpenQuery), 1, int(KStepQuery), 2, int(KCloseQuery), 1,
			int(KMisuse), 6) // a rejected call leaves the figures of every existing archetype as they were
		p.RelPct = 80
		p.HotComps = 6
		p.FilterSlots = 3
		p.ObsSlots = 3
		p.QuerySlots = 2
		p.MaxAlive = 50
		return p
	},
}
