package eng

import (
	"crypto/sha256"
	"encoding/binary"
	"encoding/hex"
	"fmt"
	"os"
	"runtime"
	"runtime/debug"
	"sort"
	"strings"

	"github.com/mlange-42/ark/ecs"
	"verifharness/typed"
	u "verifharness/universe"
)

// Opts configure the case runner and its monitors.
type Opts struct {
	MinOps, MaxOps    int
	SweepEvery        int    // state sweep every n-th op (1 = after every op)
	DeepEvery         int    // deep (typed path) sweep every n-th sweep
	QueriesPerSweep   int    // sampled ad-hoc filters compared per sweep
	StandingEvery     int    // standing-filter comparison every n-th op (0 = off)
	StatsEvery        int    // stats rules every n-th op (0 = only KStats ops)
	Twin              string // "", "same" (determinism twin), "unsafe" (ID-based twin)
	Digest            bool
	ReplayChecks      int // C19: number of replay-twin checkpoints per case
	MaxComponents     int // 256, or 64 under ark_tiny
	LatePct           int // share of cases whose registry grows across a boundary during the history (default 33)
	Avoid             map[string]bool
	ShrinkBounds      bool
	ShrinkConverge    bool
	Progress          *os.File
	DeadTargetQueries bool
	FixedCaps         []int   // if set, use these NewWorld args
	CapChoices        [][]int // if set, NewWorld args are drawn from these
	StopOnViolation   bool
	NoRecordOps       bool
	GC                *GCMon // C11: finalizer tracking
	GCEvery           int    // collectability check every n ops
	ForceGCEvery      int    // runtime.GC
	RelCacheProcess   bool   // C12: relation lists built with Rel/RelIdx are kept and reused across the cases of the process
	Matrix            bool   // C14: start every case with the scripted method matrix of tuple (case index mod #tuples)() every n ops
}

// CaseResult is the outcome of one history.
type CaseResult struct {
	Seed         uint64
	Case         int
	Profile      string
	Config       string
	NOps         int
	Effective    int // ops that executed without (expected or skipped) panic
	Hash         string
	Viol         []Violation
	Ops          []string // the op list (rendered), kept for samples / replays
	Digests      []string
	Cov          map[string]int64 // per-case coverage flags
	HarnessPanic string           // a panic outside any monitored call: harness defect, verdict inconclusive
}

var capChoices = [][]int{nil, {1}, {2}, {3}, {8}, {64}, {1, 1}, {2, 1}, {3, 2}, {8, 2}, {64, 32}, {1024, 1}, {1, 128}}

// DrawConfig draws a world configuration.
func DrawConfig(r *Rng, o *Opts) Config {
	var c Config
	if o.FixedCaps != nil {
		c.Caps = o.FixedCaps
	} else if o.CapChoices != nil {
		c.Caps = o.CapChoices[r.Intn(len(o.CapChoices))]
	} else {
		c.Caps = capChoices[r.Intn(len(capChoices))]
	}
	maxF := o.MaxComponents - u.N
	if o.Avoid["F4"] && o.MaxComponents == 256 {
		maxF-- // known finding: the 256th component type is registrable but unusable
	}
	var choices []int
	if o.MaxComponents <= 64 {
		choices = []int{0, 0, maxF / 2, maxF}
	} else {
		choices = []int{0, 0, 40 + r.Intn(10), 64 - u.N/2, 110 + r.Intn(20), 128 - u.N/2, 180 + r.Intn(10), 192 - u.N/2, maxF, maxF}
	}
	c.Fillers = choices[r.Intn(len(choices))]
	if c.Fillers > maxF {
		c.Fillers = maxF
	}
	// in a third of the cases the registry starts a few types below a 64-ID boundary and grows across it
	// during the history
	latePct := 33
	if o.LatePct > 0 {
		latePct = o.LatePct
	}
	if r.Chance(latePct) {
		c.Late = 4 + r.Intn(8)
		var starts []int
		for _, b := range []int{32, 64, 128, 192, 256} {
			if b <= o.MaxComponents {
				starts = append(starts, b-u.N-c.Late/2)
			}
		}
		c.Fillers = starts[r.Intn(len(starts))]
		if c.Fillers < 0 {
			c.Fillers = 0
		}
		if c.Fillers+u.N+c.Late > o.MaxComponents {
			c.Late = o.MaxComponents - c.Fillers - u.N
			if o.Avoid["F4"] && c.Late > 0 {
				c.Late--
			}
		}
	}
	c.Perm = r.Perm(u.N)
	return c
}

func mix(seed uint64, i int) uint64 {
	r := NewRng(seed ^ (uint64(i)+1)*0x9e3779b97f4a7c15)
	r.U64()
	return r.U64()
}

type digest struct {
	h [32]byte
}

func (d *digest) add(s string) {
	x := sha256.New()
	x.Write(d.h[:])
	x.Write([]byte(s))
	copy(d.h[:], x.Sum(nil))
}
func (d *digest) String() string { return hex.EncodeToString(d.h[:8]) }

var traceOps = os.Getenv("VERIF_TRACE") != ""

// RunCase generates and executes one history under the monitors.
func RunCase(seed uint64, idx int, p *Profile, o *Opts, st *Stats) (cr *CaseResult) {
	defer func() {
		if pv := recover(); pv != nil {
			if cr == nil {
				cr = &CaseResult{Seed: seed, Case: idx, Profile: p.Name, Cov: map[string]int64{}}
			}
			stack := string(debug.Stack())
			if panicInLibrary(stack) {
				// a read-only call made by a monitor (sweep, query comparison, probe) panicked inside the library:
				// that is a finding about the library, not a defect of the harness
				cr.Viol = append(cr.Viol, Violation{Prop: "C10", Kind: "monitor-call-panicked", Op: cr.NOps,
					Msg: fmt.Sprintf("a valid call made by a monitor panicked inside the library: %v\n%s", pv, trimStack(stack))})
				return
			}
			cr.HarnessPanic = fmt.Sprintf("%v\n%s", pv, stack)
		}
	}()
	r := NewRng(mix(seed, idx))
	cfg := DrawConfig(r, o)
	m := NewModel()
	if !o.RelCacheProcess || RelCache == nil || len(RelCache) > 50000 { // (bounded: a process may run thousands of cases)
		// (with RelCacheProcess the world-independent relation lists live as long as the process: a list used with one
		// world is handed to the worlds of later cases, whose component IDs differ)
		RelCache = map[string][]ecs.Relation{}
	}
	cr = &CaseResult{Seed: seed, Case: idx, Profile: p.Name, Config: cfg.String(), Cov: map[string]int64{}}
	d := NewDrv("A", cfg, m, st)
	d.StatsInCb = o.StatsEvery > 0
	var twin *Drv
	twinStat := NewStats()
	switch o.Twin {
	case "same":
		twin = NewDrv("B", cfg, m, twinStat)
	case "unsafe":
		twin = NewDrv("B(id-based)", cfg, m, twinStat)
		twin.ForceUnsafe = true
	case "shared":
		// a second typed world whose component IDs differ (registration order reversed, one more filler type): it
		// executes the same calls with the same world-independent argument objects (relation lists built by type
		// or by index), as a program with two worlds would
		cfgB := cfg
		cfgB.Perm = make([]int, len(cfg.Perm))
		for k, c := range cfg.Perm {
			cfgB.Perm[len(cfg.Perm)-1-k] = c
		}
		if cfg.Fillers+u.N+cfg.Late < o.MaxComponents-1 {
			cfgB.Fillers++
		}
		twin = NewDrv("B(other IDs)", cfgB, m, twinStat)
	}
	pp := *p
	pp.Avoid = o.Avoid
	if o.Avoid["F2"] {
		pp.NoShrink = true
	}
	if o.Digest || o.ReplayChecks > 0 {
		// comparisons between executions need every op to be a function of the history alone
		pp.DetShrink = true
	}
	g := NewGen(r, m, &pp)
	g.LateLeft = cfg.Late
	nops := o.MinOps
	if o.MaxOps > o.MinOps {
		nops += r.Intn(o.MaxOps - o.MinOps + 1)
	}
	var dg, dgB digest
	hasher := sha256.New()
	// replay-twin checkpoints (C19)
	replayAt := map[int]bool{}
	for k := 0; k < o.ReplayChecks; k++ {
		replayAt[nops/4+r.Intn(nops*3/4+1)] = true
	}
	var opLog []*Op
	stop := false
	var prog [32]byte
	var script []func() *Op
	if o.Matrix {
		script = g.MatrixScript(idx % len(typed.Tuples))
		nops += len(script)
	}
	for i := 0; i < nops && !stop; i++ {
		var op *Op
		for op == nil && len(script) > 0 && m.Locks == 0 {
			op = script[0]()
			script = script[1:]
		}
		if op == nil && len(script) > 0 && m.Locks > 0 {
			// scripted query steps
			op = script[0]()
			script = script[1:]
		}
		if op == nil {
			op = g.Next()
		}
		if o.Progress != nil {
			binary.LittleEndian.PutUint64(prog[0:], seed)
			binary.LittleEndian.PutUint64(prog[8:], uint64(idx))
			binary.LittleEndian.PutUint64(prog[16:], uint64(i))
			binary.LittleEndian.PutUint64(prog[24:], uint64(op.K))
			o.Progress.WriteAt(prog[:], 0)
		}
		s := op.String()
		hasher.Write([]byte(s))
		if !o.NoRecordOps {
			cr.Ops = append(cr.Ops, s)
		}
		x := m.Plan(op)
		reg := make([]bool, len(m.Obs))
		for k := range m.Obs {
			reg[k] = m.Obs[k].Registered
		}
		nH := len(d.H)
		statsBefore := ""
		if x.Panic && op.K == KMisuse && strings.HasPrefix(MisuseTable[op.Slot].Class, "locked") {
			// a structural call on a locked world "panics without effect" (C07): that includes what Stats() shows -
			// archetypes, tables, capacities, memory, registries. (Calls rejected for their arguments are only required
			// to leave entities, components and relations alone: the library may have created an empty archetype.)
			statsBefore = RenderStats(d.W.Stats())
		}
		var archBefore map[string]ArchFigures
		if x.Panic && op.K == KMisuse && d.StatsInCb && statsBefore == "" {
			// a call rejected for its arguments leaves entities, components and relations alone (C10), so what Stats()
			// says about every archetype that exists must stay as it is (C19); the library may add an empty archetype
			archBefore = ArchetypeFigures(d.W.Stats())
		}
		res := d.Exec(op, x, i)
		var resB Result
		if twin != nil {
			resB = twin.Exec(op, x, i)
		}
		cr.NOps++
		if traceOps {
			name := ""
			if op.K == KMisuse {
				name = MisuseTable[op.Slot].Name
			}
			fmt.Fprintf(os.Stderr, "TRACE case=%d op#%d panicked=%v %v %s %s\n", idx, i, res.Panicked, res.PanicVal, name, s)
		}
		if o.Digest {
			// which calls panic is part of the observable behaviour (C12, C20)
			if res.Panicked {
				dg.add("P")
			} else {
				dg.add(".")
			}
			if twin != nil && o.Twin == "same" {
				if resB.Panicked {
					dgB.add("P")
				} else {
					dgB.add(".")
				}
			}
		}
		skipped := false
		if res.Panicked {
			if _, sk := res.PanicVal.(skipMisuse); sk {
				skipped = true
			} else if !x.Panic {
				d.viol("C10", "valid-call-panicked", "valid operation %s panicked: %v\n%s", op, res.PanicVal, trimStack(res.Stack))
				stop = true
			} else {
				st.ExpPanics++
			}
		} else if x.Either {
			cr.Cov["debug-guarded-call-returned"]++
		} else if x.Panic {
			d.viol("C10", "misuse-accepted", "%s (%s, handle kind %s) returned normally, expected a panic", MisuseTable[op.Slot].Name, MisuseTable[op.Slot].Class, staleNames[op.Sub%NStale])
		}
		if twin != nil && !skipped {
			// (calls guarded only by the debug build - use of a finished query and the like - may depend on component IDs,
			// e.g. on which component has ID 0: worlds with different IDs need not agree on them)
			if resB.Panicked != res.Panicked && !(x.Either && o.Twin == "shared") && !(op.K == KMisuse && o.Twin == "unsafe") { // (the ID-based twin does not execute misuse rows)
				twin.viol("C14", "twin-panic", "twin worlds disagree on panic for %s: A=%v (%v) B=%v (%v)", op, res.Panicked, res.PanicVal, resB.Panicked, resB.PanicVal)
				stop = true
			}
		}
		if skipped {
			continue
		}
		if !res.Panicked {
			cr.Effective++
		}
		if x.Panic && res.Panicked {
			// a rejected call must not have consumed an entity ID
			sa := d.W.Stats()
			if used := sa.Entities.Used; used != m.NAlive {
				d.viol("C10", "misuse-effect", "after rejected %s: Stats().Entities.Used=%d, model alive %d", MisuseTable[op.Slot].Name, used, m.NAlive)
			} else if after := RenderStats(sa); statsBefore != "" && after != statsBefore {
				d.viol("C07", "locked-call-effect", "rejected %s changed what Stats() reports:\n--- before\n%s--- after\n%s", MisuseTable[op.Slot].Name, statsBefore, after)
			}
			if archBefore != nil {
				st.RejectedStatsCmp++
				after := ArchetypeFigures(sa)
				for k, b := range archBefore {
					a, ok := after[k]
					if !ok || a.Size != b.Size || a.Used != b.Used || a.NonEmpty != b.NonEmpty || a.Tables < b.Tables || a.Capacity < b.Capacity || a.Memory < b.Memory {
						d.viol("C19", "rejected-call-stats", "rejected %s changed the statistics of the existing archetype %s: before %+v, after %+v (present=%v)", MisuseTable[op.Slot].Name, k, b, a, ok)
						break
					}
				}
			}
		}
		if !stop {
			d.judgeObservers(x, reg, res)
			d.checkBatch(x)
			if twin != nil && (o.Twin == "same" || o.Twin == "shared") {
				twin.judgeObservers(x, reg, resB)
				twin.checkBatch(x)
			}
		}
		if !res.Panicked || x.Panic {
			m.Commit(x)
			if op.K == KReset {
				// queries are gone with the lock reset; slots must not be reused as open
				for s := range m.Queries {
					m.Queries[s].Open = false
				}
			}
		}
		if op.Leak != nil && d.Leaked() {
			m.Commit(m.Plan(op.Leak))
			cr.Cov["query-left-open-in-callback"]++
		}
		for _, s := range d.UnregDuring() {
			m.Obs[s].Registered = false
		}
		for _, r := range d.RegDuring() {
			for len(m.Obs) <= r.Slot {
				m.Obs = append(m.Obs, MObs{})
			}
			m.Obs[r.Slot] = MObs{Spec: r.Spec, Used: true, Registered: true, Epoch: m.Obs[r.Slot].Epoch + 1}
		}
		for _, s := range d.Exhausted() {
			m.QueryClosed(s)
		}
		if twin != nil {
			twin.Exhausted()
		}
		if op.K == KCloseQuery && !res.Panicked {
			m.QueryClosed(op.Slot)
		}
		opLog = append(opLog, op)
		// coverage flags
		if len(x.Dead) > 0 {
			if len(x.Post) > 0 {
				st.TargetDeaths++
				st.Detached += int64(len(x.Post))
				cr.Cov["target-death"]++
			}
		}
		if op.K == KShrink {
			cr.Cov["shrink"]++
		}
		if op.K == KReset {
			cr.Cov["reset"]++
		}
		if len(x.Sel) > 0 {
			cr.Cov["batch-nonempty"]++
		}
		if x.Panic {
			cr.Cov["misuse"]++
		}
		if m.Locks > 0 {
			cr.Cov["locked-op"]++
		}
		if op.K == KOpenQuery && op.SF >= 0 && !res.Panicked {
			for s := range m.Queries {
				if q := &m.Queries[s]; s != op.Slot && q.Open && q.SF == op.SF && q.Cached == op.Cached {
					cr.Cov["overlapping-queries-of-one-filter"]++
					if len(op.QRels) == 1 && len(q.QRels) == 1 && op.QRels[0] != q.QRels[0] {
						cr.Cov["overlapping-queries-of-one-filter-different-target"]++
					}
					break
				}
			}
		}
		if (op.K == KAddBatch || op.K == KRemoveBatch || op.K == KExchangeBatch || op.K == KSetRelBatch || op.K == KRemoveEntities) && op.SF >= 0 && len(op.QRels) > 0 {
			cr.Cov["standing-filter-batch-with-targets"]++
		}
		if len(d.fired) > 0 {
			cr.Cov["obs-fired"] += int64(len(d.fired))
		}
		if stop {
			break
		}
		// ---- monitors
		if o.Digest {
			for k := nH; k < len(d.H); k++ {
				dg.add(fmt.Sprint("h", d.H[k]))
			}
			if twin != nil && o.Twin == "same" {
				for k := nH; k < len(twin.H); k++ {
					dgB.add(fmt.Sprint("h", twin.H[k]))
				}
			}
		}
		if o.SweepEvery > 0 && i%o.SweepEvery == 0 {
			deep := o.DeepEvery > 0 && (i/o.SweepEvery)%o.DeepEvery == 0
			d.Sweep(deep)
			if twin != nil {
				twin.Sweep(false)
			}
			for q := 0; q < o.QueriesPerSweep; q++ {
				spec := g.filterSpec(false, g.R.Chance(60))
				if spec.Kind != FUnsafe {
					spec.Rels = g.relTargetsFor(spec, 0, 30)
				}
				qr := g.relTargetsFor(spec, relComps(spec.Rels), 30)
				if !o.DeadTargetQueries || !g.R.Chance(10) {
					spec.Rels = g.aliveRels(spec.Rels)
					qr = g.aliveRels(qr)
				} else {
					// deliberately use a dead (possibly recycled) target
					for _, c := range spec.Required().List() {
						if u.Types[c].IsRel && !relComps(spec.Rels).Has(c) && !relComps(qr).Has(c) {
							if dead, ok := pickDead(g); ok {
								qr = append(qr, RelT{C: c, T: dead})
								cr.Cov["dead-target-query"]++
							}
							break
						}
					}
				}
				d.CompareQuery(spec, qr)
			}
		}
		if o.StandingEvery > 0 && i%o.StandingEvery == 0 {
			d.CompareStanding(func(spec *FSpec) []RelT {
				if g.R.Chance(60) {
					return nil
				}
				return g.aliveRels(g.relTargetsFor(spec, relComps(spec.Rels), 50))
			})
		}
		if o.StatsEvery > 0 && i%o.StatsEvery == 0 {
			d.checkStats()
		}
		if op.K == KShrink && m.Locks == 0 {
			if o.ShrinkBounds && op.Sub == 0 {
				d.CheckShrinkBounds()
				if d.W.Shrink() {
					d.viol("C15", "shrink-not-converged", "a second unbounded Shrink still reports remaining work")
				}
			}
			if o.ShrinkConverge && op.Sub == 1 {
				// repeated Shrink(0) must reach "no remaining work" within 2 x tables + 2 calls
				s := d.W.Stats()
				tables := 0
				for a := range s.Archetypes {
					tables += len(s.Archetypes[a].Tables) + s.Archetypes[a].FreeTables
				}
				more := true
				calls := 0
				for more && calls < 2*tables+2 {
					more = d.W.Shrink(0)
					calls++
				}
				if more {
					d.viol("C15", "shrink-not-convergent", "Shrink(0) still reports work after %d calls with %d tables", calls, tables)
				}
				cr.Cov["shrink-converged"]++
			}
		}
		if o.Digest && i%16 == 0 && d.Headroom() {
			dg.add(worldDigest(d))
			if twin != nil && o.Twin == "same" {
				dgB.add(worldDigest(twin))
				if dg.String() != dgB.String() {
					d.viol("C12", "twin-divergence", "two worlds in one process diverged at op %d (%s)", i, op)
				}
			}
			cr.Digests = append(cr.Digests, dg.String())
		}
		if o.ForceGCEvery > 0 && i%o.ForceGCEvery == 0 {
			runtime.GC()
		}
		if o.GC != nil && o.GCEvery > 0 && i > 0 && i%o.GCEvery == 0 {
			gcCheck(d, o, m, st, cr)
		}
		if replayAt[i] && m.Locks == 0 {
			replayTwin(d, cfg, opLog, o, cr)
		}
		if len(d.Viol) > 0 || (twin != nil && len(twin.Viol) > 0) {
			stop = true
		}
	}
	if !stop {
		// close open queries, final deep sweep
		for s := range m.Queries {
			if m.Queries[s].Open {
				func() {
					defer func() { recover() }()
					d.closeQuery(&Op{Slot: s})
				}()
				if twin != nil && !twin.ForceUnsafe {
					func() {
						defer func() { recover() }()
						twin.closeQuery(&Op{Slot: s})
					}()
				}
				m.QueryClosed(s)
			}
		}
		d.opIdx = nops
		d.Sweep(true)
		if o.GC != nil && o.GCEvery > 0 {
			gcCheck(d, o, m, st, cr)
		}
		if o.StandingEvery > 0 {
			d.CompareStanding(nil)
		}
		if twin != nil {
			twin.Sweep(false)
		}
	}
	if o.GC != nil {
		o.GC.Reset()
	}
	cr.Viol = append(cr.Viol, d.Viol...)
	if twin != nil {
		cr.Viol = append(cr.Viol, twin.Viol...)
	}
	cr.Hash = hex.EncodeToString(hasher.Sum(nil)[:8])
	if o.Digest {
		cr.Digests = append(cr.Digests, dg.String())
	}
	return cr
}

func pickDead(g *Gen) (EID, bool) {
	var dead, recycled []EID
	for i := g.M.Epoch0; i < len(g.M.Ents); i++ {
		if !g.M.Ents[i].Alive {
			dead = append(dead, EID(i))
			if _, ok := g.recycledTwin(EID(i)); ok {
				recycled = append(recycled, EID(i))
			}
		}
	}
	// prefer stale handles whose ID is in use again
	if len(recycled) > 0 && g.R.Chance(70) {
		return recycled[g.R.Intn(len(recycled))], true
	}
	if len(dead) == 0 {
		return 0, false
	}
	return dead[g.R.Intn(len(dead))], true
}

// worldDigest renders everything C12 names: iteration order of a filter panel (cached and uncached) and Stats().
func worldDigest(d *Drv) string {
	s := ""
	f0 := ecs.NewFilter0(d.W)
	q := f0.Query()
	for q.Next() {
		s += fmt.Sprint(q.Entity())
	}
	for i := range d.M.Filters {
		if !d.M.Filters[i].Used || i >= len(d.SF) || d.SF[i].inst == nil {
			continue
		}
		qa := d.SF[i].inst.Query(nil)
		for qa.Next() {
			s += fmt.Sprint("c", qa.Entity())
		}
		qb := d.SF[i].twin.Query(nil)
		for qb.Next() {
			s += fmt.Sprint("u", qb.Entity())
		}
	}
	for c := 0; c < u.N; c += 3 {
		uf := ecs.NewUnsafeFilter(d.W, d.ID[c])
		uq := uf.Query()
		for uq.Next() {
			s += fmt.Sprint("q", uq.Entity())
		}
	}
	s += RenderStats(d.W.Stats())
	return s
}

// replayTwin replays the op prefix on a fresh world, asks Stats() once, and compares with the long-lived world (C19).
func replayTwin(d *Drv, cfg Config, ops []*Op, o *Opts, cr *CaseResult) {
	m2 := NewModel()
	st2 := NewStats()
	d2 := NewDrv("replay", cfg, m2, st2)
	d2.NoProbe = true
	for i, op := range ops {
		if op.K == KStats {
			continue // the replay is asked for statistics exactly once, at the end
		}
		x := m2.Plan(op)
		res := d2.Exec(op, x, i)
		if res.Panicked {
			if _, sk := res.PanicVal.(skipMisuse); sk {
				continue
			}
			if !x.Panic {
				return // reported by the primary run
			}
		}
		m2.Commit(x)
		if op.Leak != nil && d2.Leaked() {
			m2.Commit(m2.Plan(op.Leak))
		}
		for _, s := range d2.UnregDuring() {
			m2.Obs[s].Registered = false
		}
		for _, s := range d2.Exhausted() {
			m2.QueryClosed(s)
		}
		if op.K == KCloseQuery && !res.Panicked {
			m2.QueryClosed(op.Slot)
		}
		if op.K == KReset {
			for s := range m2.Queries {
				m2.Queries[s].Open = false
			}
		}
	}
	a := RenderStats(d.W.Stats())
	b := RenderStats(d2.W.Stats())
	cr.Cov["replay-twin"]++
	if a != b {
		d.viol("C19", "stats-replay", "incrementally updated Stats() differ from a replay asked once:\n--- incremental\n%s--- replay\n%s", a, b)
	}
}

// panicInLibrary reports whether the innermost non-runtime frame of a panic stack belongs to the library.
func panicInLibrary(stack string) bool {
	lines := strings.Split(stack, "\n")
	seenPanic := false
	for _, l := range lines {
		if strings.HasPrefix(l, "panic(") {
			seenPanic = true
			continue
		}
		if !seenPanic || strings.HasPrefix(l, "\t") || l == "" {
			continue
		}
		if strings.HasPrefix(l, "runtime.") {
			continue
		}
		return strings.HasPrefix(l, "github.com/mlange-42/ark/ecs")
	}
	return false
}

// SortedKeys helper for evidence output.
func SortedKeys(m map[string]int64) []string {
	ks := make([]string, 0, len(m))
	for k := range m {
		ks = append(ks, k)
	}
	sort.Strings(ks)
	return ks
}

// trimStack keeps the frames between the panic and the harness.
func trimStack(s string) string {
	lines := strings.Split(s, "\n")
	var out []string
	on := false
	for i := 0; i+1 < len(lines); i++ {
		if strings.HasPrefix(lines[i], "panic(") {
			on = true
			i++
			continue
		}
		if on {
			if strings.Contains(lines[i], "verifharness/eng.(*Drv).Exec") {
				break
			}
			out = append(out, lines[i])
		}
		if len(out) > 24 {
			break
		}
	}
	return strings.Join(out, "\n")
}

func gcCheck(d *Drv, o *Opts, m *Model, st *Stats, cr *CaseResult) {
	orphans, collected, msgs := o.GC.Check(m, 100)
	st.GCOrphans += int64(orphans)
	st.GCCollected += int64(collected)
	st.GCChecks++
	if orphans > 0 {
		cr.Cov["gc-orphans"] += int64(orphans)
	}
	for _, msg := range msgs {
		d.viol("C11", "gc-collectability", "%s", msg)
	}
}

// BuildFrozen executes a generated history without monitors and returns the driver and model
// (used by the concurrent-query worker, which then freezes the world).
func BuildFrozen(seed uint64, idx int, p *Profile, o *Opts, nops int) (*Drv, *Model, *Gen) {
	r := NewRng(mix(seed, idx))
	cfg := DrawConfig(r, o)
	m := NewModel()
	st := NewStats()
	d := NewDrv("W", cfg, m, st)
	pp := *p
	pp.Avoid = o.Avoid
	g := NewGen(r, m, &pp)
	g.LateLeft = cfg.Late
	for i := 0; i < nops; i++ {
		op := g.Next()
		x := m.Plan(op)
		res := d.Exec(op, x, i)
		if res.Panicked {
			if _, sk := res.PanicVal.(skipMisuse); sk {
				continue
			}
			if !x.Panic {
				d.viol("C10", "valid-call-panicked", "valid operation %s panicked: %v\n%s", op, res.PanicVal, trimStack(res.Stack))
				return d, m, g
			}
		}
		m.Commit(x)
		if op.Leak != nil && d.Leaked() {
			m.Commit(m.Plan(op.Leak))
		}
		for _, s := range d.Exhausted() {
			m.QueryClosed(s)
		}
		if op.K == KCloseQuery {
			m.QueryClosed(op.Slot)
		}
	}
	d.opIdx = nops
	d.Sweep(false)
	return d, m, g
}

// FilterSpecFor exposes the generator's filter drawing (for the concurrent-query worker).
func (g *Gen) FilterSpecFor(typedOnly, wantMatch bool) *FSpec {
	f := g.filterSpec(typedOnly, wantMatch)
	if f.Kind != FUnsafe {
		f.Rels = g.aliveRels(g.relTargetsFor(f, 0, 30))
	}
	return f
}

// QRelsFor draws per-query relation targets (alive or zero only).
func (g *Gen) QRelsFor(f *FSpec, pct int) []RelT {
	return g.aliveRels(g.relTargetsFor(f, relComps(f.Rels), pct))
}

// BuildTyped / BuildUnsafe / Rels expose filter construction.
func (d *Drv) BuildTyped(f *FSpec) typed.TFilter                     { return d.buildTyped(f) }
func (d *Drv) BuildUnsafe(f *FSpec) ecs.UnsafeFilter                 { return d.buildUnsafe(f) }
func (d *Drv) Rels(rs []RelT, order []int, style int) []ecs.Relation { return d.rels(rs, order, style) }
func (d *Drv) FilterOrder(f *FSpec) []int                            { return d.filterOrder(f) }
func (d *Drv) Handle(e EID) ecs.Entity                               { return d.h(e) }

// Completes exports completes (see there).
func Completes(fn func()) bool { return completes(fn) }

// ManyPlain exports the family of 254 plain component types (distinct from the universe types).
func ManyPlain() []ecs.Comp { return manyPlain }
