package eng

import (
	"fmt"
	"os"
	"unsafe"

	"github.com/mlange-42/ark/ecs"
	u "verifharness/universe"
)

// Scenario is a named directed case. It returns messages describing what went wrong (empty = held).
// Scenarios pin down the exact trigger of every defect found so far (KNOWN_FINDINGS.txt); for a
// "fixed:" entry a failure is an ordinary violation, for a "known:" entry it is expected.
type Scenario struct {
	Name   string
	Props  []string
	Run    func() []string
	OnlyIf func() bool // nil: always; otherwise the scenario is run (and recorded) only if it returns true
}

func try(f func()) (p any) {
	defer func() { p = recover() }()
	f()
	return nil
}

func ents(w *ecs.World) []ecs.Entity {
	f := ecs.NewFilter0(w)
	q := f.Query()
	var r []ecs.Entity
	for q.Next() {
		r = append(r, q.Entity())
	}
	return r
}

// Scenarios lists all directed scenarios.
var Scenarios = []Scenario{
	{Name: "F1-copy-dead-entity", Props: []string{"C10", "C02"}, Run: func() []string {
		var out []string
		w := ecs.NewWorld(4)
		m := ecs.NewMap1[u.P8](w)
		a := m.NewEntity(&u.P8{V: 1})
		b := m.NewEntity(&u.P8{V: 2})
		w.RemoveEntity(a)
		if try(func() { w.CopyEntity(a) }) == nil {
			out = append(out, "CopyEntity of a removed entity did not panic")
		}
		if n := w.Stats().Entities.Used; n != 1 {
			out = append(out, fmt.Sprintf("after rejected CopyEntity Used=%d, want 1", n))
		}
		c := m.NewEntity(&u.P8{V: 3}) // recycles a's ID
		if try(func() { w.CopyEntity(a) }) == nil {
			out = append(out, "CopyEntity of a stale handle with recycled ID did not panic")
		}
		if try(func() { w.CopyEntity(ecs.Entity{}) }) == nil {
			out = append(out, "CopyEntity of the zero entity did not panic")
		}
		if n := len(ents(w)); n != 2 {
			out = append(out, fmt.Sprintf("%d entities after rejected copies, want 2", n))
		}
		_, _ = b, c
		return out
	}},
	{Name: "F2-shrink-frees-indexed-table", Props: []string{"C15", "C05", "C03", "C04", "C19"}, Run: func() []string {
		var out []string
		w := ecs.NewWorld(4, 2)
		m := ecs.NewMap1[u.R1](w)
		t1 := w.NewEntity()
		t2 := w.NewEntity()
		cached := ecs.NewFilter1[u.R1](w).Register()
		plain := ecs.NewFilter1[u.R1](w)
		c := m.NewEntity(&u.R1{V: 5}, ecs.RelIdx(0, t1))
		m.SetRelations(c, ecs.RelIdx(0, t2)) // table for t1 is empty now, t1 alive
		w.Shrink()
		d := m.NewEntity(&u.R1{V: 6}, ecs.RelIdx(0, t1)) // must be visible
		e := m.NewEntity(&u.R1{V: 7}, ecs.RelIdx(0, w.NewEntity()))
		count := func(f *ecs.Filter1[u.R1], rel ...ecs.Relation) (int, int) {
			q := f.Query(rel...)
			n := q.Count()
			k := 0
			for q.Next() {
				k++
			}
			return n, k
		}
		if n, k := count(plain); n != 3 || k != 3 {
			out = append(out, fmt.Sprintf("uncached filter after Shrink: Count=%d visited=%d, want 3", n, k))
		}
		if n, k := count(cached); n != 3 || k != 3 {
			out = append(out, fmt.Sprintf("cached filter after Shrink: Count=%d visited=%d, want 3", n, k))
		}
		if n, k := count(plain, ecs.RelIdx(0, t1)); n != 1 || k != 1 {
			out = append(out, fmt.Sprintf("query for target t1 after Shrink: Count=%d visited=%d, want 1", n, k))
		}
		if p := try(func() { w.RemoveEntity(t1) }); p != nil {
			out = append(out, fmt.Sprintf("removing the old target after Shrink panicked: %v", p))
		} else if tg := m.GetRelation(d, 0); !tg.IsZero() {
			out = append(out, fmt.Sprintf("child of removed target keeps target %v", tg))
		}
		_ = e
		return out
	}},
	{Name: "F3-remove-two-targets-in-one-batch", Props: []string{"C04", "C06"}, Run: func() []string {
		var out []string
		w := ecs.NewWorld(4, 2)
		m := ecs.NewMap2[u.R0, u.R1](w)
		tm := ecs.NewMap1[u.P8](w)
		t1 := tm.NewEntity(&u.P8{V: 1})
		t2 := tm.NewEntity(&u.P8{V: 2})
		c := m.NewEntity(&u.R0{}, &u.R1{V: 9}, ecs.RelIdx(0, t1), ecs.RelIdx(1, t2))
		if p := try(func() { w.RemoveEntities(ecs.NewFilter1[u.P8](w).Batch(), nil) }); p != nil {
			out = append(out, fmt.Sprintf("RemoveEntities of two targets of one table panicked: %v", p))
			return out
		}
		if !w.Alive(c) {
			out = append(out, "child removed")
			return out
		}
		for i := 0; i < 2; i++ {
			if tg := m.GetRelation(c, i); !tg.IsZero() {
				out = append(out, fmt.Sprintf("relation %d of the child still targets %v", i, tg))
			}
		}
		_, b := m.Get(c)
		if b.V != 9 {
			out = append(out, "child lost its component value")
		}
		return out
	}},
	{Name: "F4-all-256-component-types", Props: []string{"C18"}, Run: func() []string {
		var out []string
		w := ecs.NewWorld(4)
		ids := maxComponentIDs(w)
		if len(ids) < 64 {
			return []string{fmt.Sprintf("only %d component types could be registered", len(ids))}
		}
		last := ids[len(ids)-1]
		var e ecs.Entity
		if p := try(func() { e = w.Unsafe().NewEntity(last) }); p != nil {
			out = append(out, fmt.Sprintf("creating an entity with the last of %d component types panicked: %v", len(ids), p))
			return out
		}
		if !w.Unsafe().Has(e, last) {
			out = append(out, "entity lacks the last component")
		}
		q := ecs.NewUnsafeFilter(w, last).Query()
		if q.Count() != 1 {
			out = append(out, "query for the last component does not find the entity")
		}
		q.Close()
		return out
	}},
	{Name: "F5-entity-once-in-removal-callback", Props: []string{"C09"}, Run: func() []string {
		var out []string
		w := ecs.NewWorld(4)
		m := ecs.NewMap2[u.P8, u.P4](w)
		e := m.NewEntity(&u.P8{V: 1}, &u.P4{V: 2})
		m.NewEntity(&u.P8{V: 3}, &u.P4{V: 4})
		check := func(what string) func(ecs.Entity) {
			return func(x ecs.Entity) {
				n, k := 0, 0
				f := ecs.NewFilter0(w)
				q := f.Query()
				for q.Next() {
					k++
					if q.Entity() == x {
						n++
					}
				}
				if n != 1 || k != 2 {
					out = append(out, fmt.Sprintf("%s: entity visited %d times, %d entities in total (want 1, 2)", what, n, k))
				}
			}
		}
		o := ecs.Observe(ecs.OnRemoveComponents).Do(check("Remove")).Register(w)
		ecs.NewMap1[u.P4](w).Remove(e)
		o.Unregister(w)
		ecs.Observe(ecs.OnRemoveComponents).Do(check("Exchange")).Register(w)
		w.Unsafe().Exchange(e, []ecs.ID{ecs.ComponentID[u.P4](w)}, []ecs.ID{ecs.ComponentID[u.P8](w)})
		return out
	}},
	{Name: "F6-reset-with-highest-event-type", Props: []string{"C16"}, Run: func() []string {
		var out []string
		w := ecs.NewWorld(4)
		calls := 0
		o := ecs.Observe(ecs.OnRemoveRelations).Do(func(ecs.Entity) { calls++ }).Register(w)
		o2 := ecs.Observe(ecs.OnCreateEntity).Do(func(ecs.Entity) { calls++ }).Register(w)
		w.Reset()
		w.NewEntity()
		if calls != 0 {
			out = append(out, fmt.Sprintf("observers fired %d times after Reset", calls))
		}
		if n := w.Stats().Observers; n != 0 {
			out = append(out, fmt.Sprintf("Stats().Observers=%d after Reset", n))
		}
		if p := try(func() { o.Register(w); o2.Register(w) }); p != nil {
			out = append(out, fmt.Sprintf("re-registering observers after Reset panicked: %v", p))
		}
		return out
	}},
	{Name: "F7-multi-component-removal-observer", Props: []string{"C08"}, Run: func() []string {
		var out []string
		w := ecs.NewWorld(4)
		calls := 0
		ecs.Observe(ecs.OnRemoveComponents).For(ecs.C[u.P8](), ecs.C[u.P4]()).Do(func(ecs.Entity) { calls++ }).Register(w)
		m := ecs.NewMap2[u.P8, u.P2](w)
		e := m.NewEntity(&u.P8{V: 1}, &u.P2{V: 2})
		ecs.NewMap1[u.P2](w).Remove(e) // removes neither observed component completely: must not fire
		if calls != 0 {
			out = append(out, fmt.Sprintf("observer for {P8,P4} fired %d times when P2 was removed from an entity holding P8", calls))
		}
		calls = 0
		ecs.NewMap1[u.P4](w).Add(e, &u.P4{V: 3})
		ecs.NewMap1[u.P4](w).Remove(e) // only one of the two
		if calls != 0 {
			out = append(out, fmt.Sprintf("observer for {P8,P4} fired %d times when only P4 was removed", calls))
		}
		ecs.NewMap1[u.P4](w).Add(e, &u.P4{V: 3})
		calls = 0
		ecs.NewMap2[u.P8, u.P4](w).Remove(e)
		if calls != 1 {
			out = append(out, fmt.Sprintf("observer for {P8,P4} fired %d times when both were removed, want 1", calls))
		}
		return out
	}},
	{Name: "F9-setrelationsbatch-reports-moved-entities", Props: []string{"C08", "C09", "C06"}, Run: func() []string {
		var out []string
		w := ecs.NewWorld(4, 2)
		m := ecs.NewMap1[u.R1](w)
		t1, t2 := w.NewEntity(), w.NewEntity()
		want := map[ecs.Entity]bool{}
		m.NewEntity(&u.R1{V: 77}, ecs.RelIdx(0, t2)) // the destination table already holds a row
		m.NewEntity(&u.R1{V: 78}, ecs.RelIdx(0, t2))
		for i := 0; i < 3; i++ {
			want[m.NewEntity(&u.R1{V: int64(i + 1)}, ecs.RelIdx(0, t1))] = true
		}
		got := map[ecs.Entity]int{}
		ecs.Observe(ecs.OnAddRelations).Do(func(e ecs.Entity) { got[e]++ }).Register(w)
		m.SetRelationsBatch(ecs.NewFilter1[u.R1](w).Batch(), nil, ecs.RelIdx(0, t2))
		for e := range want {
			if got[e] != 1 {
				out = append(out, fmt.Sprintf("OnAddRelations reported %v %d times, want 1", e, got[e]))
			}
		}
		for e, n := range got {
			if !want[e] {
				out = append(out, fmt.Sprintf("OnAddRelations reported unaffected/garbage entity %v %d times", e, n))
			}
		}
		return out
	}},
	{Name: "F10-unregister-observer-in-callback", Props: []string{"C08"}, Run: func() []string {
		var out []string
		w := ecs.NewWorld(4)
		calls := [3]int{}
		var obs [3]*ecs.Observer
		for i := range obs {
			i := i
			obs[i] = ecs.Observe(ecs.OnCreateEntity).Do(func(ecs.Entity) {
				calls[i]++
				if i == 0 {
					obs[0].Unregister(w)
				}
			})
			obs[i].Register(w)
		}
		if p := try(func() { w.NewEntity() }); p != nil {
			out = append(out, fmt.Sprintf("unregistering an observer inside its callback panicked: %v", p))
			return out
		}
		if calls[1] != 1 || calls[2] != 1 {
			out = append(out, fmt.Sprintf("neighbouring observers fired %d and %d times, want 1 and 1", calls[1], calls[2]))
		}
		w.NewEntity()
		if calls[0] != 1 || calls[1] != 2 || calls[2] != 2 {
			out = append(out, fmt.Sprintf("after self-unregistration calls=%v, want [1 2 2]", calls))
		}
		return out
	}},
	{Name: "F11-unregister-filter-while-query-open", Props: []string{"C05", "C03"}, Run: func() []string {
		var out []string
		w := ecs.NewWorld(4)
		m8 := ecs.NewMap1[u.P8](w)
		m4 := ecs.NewMap1[u.P4](w)
		for i := 0; i < 3; i++ {
			m8.NewEntity(&u.P8{V: int64(i)})
		}
		m4.NewEntity(&u.P4{V: 1})
		f8 := ecs.NewFilter1[u.P8](w).Register()
		f4 := ecs.NewFilter1[u.P4](w).Register()
		q := f4.Query() // f4's entry is the last one
		f8.Unregister() // compacts the cache while q is open
		n := 0
		for q.Next() {
			n++
			if a := q.Get(); a.V != 1 {
				out = append(out, "query of the still-registered filter yields foreign data")
			}
		}
		if n != 1 {
			out = append(out, fmt.Sprintf("query open across Unregister of another filter visited %d entities, want 1", n))
		}
		f8.Register()
		q8 := f8.Query()
		f8.Unregister() // own filter
		n = 0
		for q8.Next() {
			n++
		}
		if n != 3 {
			out = append(out, fmt.Sprintf("query open across Unregister of its own filter visited %d entities, want 3", n))
		}
		if w.IsLocked() {
			out = append(out, "world still locked")
		}
		return out
	}},
	{Name: "F12-setrelationsbatch-event-timing", Props: []string{"C09"}, Run: func() []string {
		var out []string
		w := ecs.NewWorld(4, 2)
		m := ecs.NewMap1[u.R1](w)
		t1, t2, t3 := w.NewEntity(), w.NewEntity(), w.NewEntity()
		a := m.NewEntity(&u.R1{V: 1}, ecs.RelIdx(0, t1))
		b := m.NewEntity(&u.R1{V: 2}, ecs.RelIdx(0, t2)) // second source table
		ecs.Observe(ecs.OnRemoveRelations).Do(func(e ecs.Entity) {
			for _, x := range []ecs.Entity{a, b} {
				if tg := m.GetRelation(x, 0); tg == t3 {
					out = append(out, fmt.Sprintf("OnRemoveRelations for %v: batch entity %v already has the new target", e, x))
				}
			}
		}).Register(w)
		ecs.Observe(ecs.OnAddRelations).Do(func(e ecs.Entity) {
			for _, x := range []ecs.Entity{a, b} {
				if tg := m.GetRelation(x, 0); tg != t3 {
					out = append(out, fmt.Sprintf("OnAddRelations for %v: batch entity %v still has the old target %v", e, x, tg))
				}
			}
		}).Register(w)
		m.SetRelationsBatch(ecs.NewFilter1[u.R1](w).Batch(), nil, ecs.RelIdx(0, t3))
		return out
	}},
	{Name: "F13-shrink-on-locked-world", Props: []string{"C15", "C07", "C01"}, Run: func() []string {
		var out []string
		w := ecs.NewWorld(2)
		m := ecs.NewMap1[u.P8](w)
		e := m.NewEntity(&u.P8{V: 1})
		var tmp []ecs.Entity
		for i := 0; i < 100; i++ {
			tmp = append(tmp, m.NewEntity(&u.P8{V: 5}))
		}
		for _, x := range tmp {
			w.RemoveEntity(x)
		}
		f := ecs.NewFilter1[u.P8](w)
		q := f.Query()
		q.Next()
		p := q.Get()
		// either rejected without effect, or invisible
		_ = try(func() { w.Shrink() })
		p.V = 42
		q.Close()
		if got := (*u.P8)(w.Unsafe().Get(e, ecs.ComponentID[u.P8](w))).V; got != 42 {
			out = append(out, fmt.Sprintf("write through a query pointer after Shrink on the locked world was lost (reads %d)", got))
		}
		if w.IsLocked() {
			out = append(out, "world still locked")
		}
		return out
	}},
	{Name: "F14-rejected-call-in-callback-through-the-same-mapper", Props: []string{"C07", "C04", "C06", "C09", "C10"}, Run: func() []string {
		var out []string
		// a call rejected because the world is locked must have no effect - also not on the operation in progress,
		// when it goes through the mapper / exchange object that operation was called on (shared relation buffer)
		check := func(name string, run func(w *ecs.World, m *ecs.Map1[u.R0], ex *ecs.Exchange1[u.R0], f *ecs.Filter1[u.P8], pT, pO ecs.Entity, nested func(e ecs.Entity))) {
			w := ecs.NewWorld(4)
			m := ecs.NewMap1[u.R0](w)
			ex := ecs.NewExchange1[u.R0](w)
			pm := ecs.NewMap1[u.P8](w)
			f := ecs.NewFilter1[u.P8](w)
			p0, pT, pO := w.NewEntity(), w.NewEntity(), w.NewEntity()
			var es []ecs.Entity
			for i := 0; i < 3; i++ {
				es = append(es, pm.NewEntity(&u.P8{V: int64(i)}))
			}
			_ = p0
			rejected := 0
			nested := func(e ecs.Entity) {
				if try(func() { m.SetRelations(e, ecs.RelIdx(0, pO)) }) != nil {
					rejected++
				}
				if try(func() { ex.Add(e, &u.R0{}, ecs.RelIdx(0, pO)) }) != nil {
					rejected++
				}
			}
			run(w, m, ex, f, pT, pO, nested)
			if rejected == 0 {
				out = append(out, name+": no nested call was rejected")
			}
			for _, e := range es {
				if tg := m.GetRelation(e, 0); tg != pT {
					out = append(out, fmt.Sprintf("%s: entity %v has target %v, want %v", name, e, tg, pT))
				}
			}
			w.RemoveEntity(pT)
			for _, e := range es {
				if tg := m.GetRelation(e, 0); !tg.IsZero() {
					out = append(out, fmt.Sprintf("%s: entity %v still points to the removed target %v", name, e, tg))
				}
			}
		}
		check("Map1.AddBatchFn", func(w *ecs.World, m *ecs.Map1[u.R0], ex *ecs.Exchange1[u.R0], f *ecs.Filter1[u.P8], pT, pO ecs.Entity, nested func(ecs.Entity)) {
			m.AddBatchFn(f.Batch(), func(e ecs.Entity, _ *u.R0) { nested(e) }, ecs.RelIdx(0, pT))
		})
		check("Exchange1.AddBatchFn", func(w *ecs.World, m *ecs.Map1[u.R0], ex *ecs.Exchange1[u.R0], f *ecs.Filter1[u.P8], pT, pO ecs.Entity, nested func(ecs.Entity)) {
			ex.AddBatchFn(f.Batch(), func(e ecs.Entity, _ *u.R0) { nested(e) }, ecs.RelIdx(0, pT))
		})
		check("Map1.SetRelationsBatch", func(w *ecs.World, m *ecs.Map1[u.R0], ex *ecs.Exchange1[u.R0], f *ecs.Filter1[u.P8], pT, pO ecs.Entity, nested func(ecs.Entity)) {
			m.AddBatch(f.Batch(), &u.R0{}, ecs.RelIdx(0, pO))
			m.SetRelationsBatch(f.Batch(), func(e ecs.Entity) { nested(e) }, ecs.RelIdx(0, pT))
		})
		check("Map1.SetRelations with an OnRemoveRelations observer", func(w *ecs.World, m *ecs.Map1[u.R0], ex *ecs.Exchange1[u.R0], f *ecs.Filter1[u.P8], pT, pO ecs.Entity, nested func(ecs.Entity)) {
			m.AddBatch(f.Batch(), &u.R0{}, ecs.RelIdx(0, pO))
			obs := ecs.Observe(ecs.OnRemoveRelations).Do(func(e ecs.Entity) { nested(e) }).Register(w)
			q := f.Query()
			var es []ecs.Entity
			for q.Next() {
				es = append(es, q.Entity())
			}
			for _, e := range es {
				m.SetRelations(e, ecs.RelIdx(0, pT))
			}
			obs.Unregister(w)
		})
		return out
	}},
	{Name: "F15-rejected-batch-call-leaves-world-locked", Props: []string{"C10", "C07", "C06"}, Run: func() []string {
		var out []string
		check := func(name string, call func(w *ecs.World, a *ecs.Map1[u.P8], b *ecs.Map1[u.P4], r *ecs.Map1[u.R0], all ecs.Batch, p ecs.Entity)) {
			w := ecs.NewWorld(4)
			a, b, r := ecs.NewMap1[u.P8](w), ecs.NewMap1[u.P4](w), ecs.NewMap1[u.R0](w)
			p := w.NewEntity()
			a.NewEntity(&u.P8{V: 1})
			e := a.NewEntity(&u.P8{V: 2})
			b.Add(e, &u.P4{V: 3})
			before := len(ents(w))
			if try(func() { call(w, a, b, r, ecs.NewFilter1[u.P8](w).Batch(), p) }) == nil {
				out = append(out, name+": the invalid batch request did not panic")
			}
			if w.IsLocked() {
				out = append(out, name+": world is locked after recovering from the rejected batch call")
			}
			if p := try(func() { w.RemoveEntity(w.NewEntity()) }); p != nil {
				out = append(out, fmt.Sprintf("%s: ordinary operation afterwards panics: %v", name, p))
			}
			if n := len(ents(w)); n != before {
				out = append(out, fmt.Sprintf("%s: %d entities after the rejected call, %d before", name, n, before))
			}
		}
		check("AddBatch of a component some selected entities have", func(w *ecs.World, a *ecs.Map1[u.P8], b *ecs.Map1[u.P4], r *ecs.Map1[u.R0], all ecs.Batch, p ecs.Entity) {
			b.AddBatch(all, &u.P4{V: 9})
		})
		check("RemoveBatch of a component some selected entities lack", func(w *ecs.World, a *ecs.Map1[u.P8], b *ecs.Map1[u.P4], r *ecs.Map1[u.R0], all ecs.Batch, p ecs.Entity) {
			b.RemoveBatch(all, nil)
		})
		check("AddBatch of a relation component without target", func(w *ecs.World, a *ecs.Map1[u.P8], b *ecs.Map1[u.P4], r *ecs.Map1[u.R0], all ecs.Batch, p ecs.Entity) {
			r.AddBatch(all, &u.R0{})
		})
		check("SetRelationsBatch for entities without the relation component", func(w *ecs.World, a *ecs.Map1[u.P8], b *ecs.Map1[u.P4], r *ecs.Map1[u.R0], all ecs.Batch, p ecs.Entity) {
			r.SetRelationsBatch(all, nil, ecs.RelIdx(0, p))
		})
		return out
	}},
	{Name: "F17-observer-reused-in-another-world", Props: []string{"C08"}, Run: func() []string {
		var out []string
		w1 := ecs.NewWorld(4)
		ecs.ComponentID[u.P4](w1) // other IDs than in w2
		ecs.ComponentID[u.P8](w1)
		w2 := ecs.NewWorld(4)
		n := 0
		obs := ecs.Observe(ecs.OnAddComponents).For(ecs.C[u.P8]()).Do(func(ecs.Entity) { n++ })
		obs.Register(w1)
		obs.Unregister(w1)
		obs.Register(w2)
		m := ecs.NewMap1[u.P8](w2)
		m.Add(w2.NewEntity(), &u.P8{V: 1})
		if n != 1 {
			out = append(out, fmt.Sprintf("observer For(P8) registered in a second world fired %d times for an added P8, want 1", n))
		}
		ecs.NewMap1[u.P4](w2).Add(w2.NewEntity(), &u.P4{V: 1})
		if n != 1 {
			out = append(out, fmt.Sprintf("observer For(P8) fired for an added P4 (calls %d)", n))
		}
		return out
	}},
	{Name: "F18-relation-named-twice-hides-omitted-target", Props: []string{"C10", "C04"}, Run: func() []string {
		var out []string
		w := ecs.NewWorld(4)
		t1, t2 := w.NewEntity(), w.NewEntity()
		m := ecs.NewMap2[u.R0, u.R1](w)
		before := len(ents(w))
		if try(func() { m.NewEntity(&u.R0{}, &u.R1{}, ecs.Rel[u.R0](t1), ecs.Rel[u.R0](t2)) }) == nil {
			out = append(out, "Map2[R0,R1].NewEntity with R0 named twice and no target for R1 did not panic")
		}
		if try(func() { m.NewEntity(&u.R0{}, &u.R1{}, ecs.RelIdx(0, t1), ecs.RelIdx(0, t1)) }) == nil {
			out = append(out, "Map2[R0,R1].NewEntity with the same R0 target twice and no target for R1 did not panic")
		}
		e := w.NewEntity()
		if try(func() { m.Add(e, &u.R0{}, &u.R1{}, ecs.Rel[u.R1](t1), ecs.Rel[u.R1](t2)) }) == nil {
			out = append(out, "Map2[R0,R1].Add with R1 named twice and no target for R0 did not panic")
		}
		if n := len(ents(w)); n != before+1 {
			out = append(out, fmt.Sprintf("%d entities after the rejected calls, want %d", n, before+1))
		}
		// the complete form still works, in any order
		if p := try(func() { m.NewEntity(&u.R0{}, &u.R1{}, ecs.Rel[u.R1](t2), ecs.Rel[u.R0](t1)) }); p != nil {
			out = append(out, fmt.Sprintf("complete relation arguments rejected: %v", p))
		}
		return out
	}},
	{Name: "F19-handles-of-entities-removed-by-reset", Props: []string{"C16", "C02", "C17"}, Run: func() []string {
		var out []string
		w := ecs.NewWorld(4)
		var old []ecs.Entity
		for i := 0; i < 6; i++ {
			old = append(old, w.NewEntity())
		}
		w.RemoveEntity(old[2])
		old = append(old, w.NewEntity()) // a recycled one
		w.Reset()
		w.NewEntity()
		for _, h := range old[1:] { // old[0] has the ID that is in use again
			if w.Alive(h) {
				out = append(out, fmt.Sprintf("handle %v of an entity removed by Reset is reported alive", h))
			}
		}
		return out
	}},
	{Name: "F22-rejected-observer-registration", Props: []string{"C07", "C18", "C08"}, Run: func() []string {
		var out []string
		w := ecs.NewWorld(4)
		m := ecs.NewMap1[u.P8](w)
		e := m.NewEntity(&u.P8{V: 1})
		fired := 0
		obs := ecs.Observe(ecs.OnAddComponents).For(ecs.C[u.LateObs1]()).Do(func(ecs.Entity) { fired++ })
		q := ecs.NewFilter1[u.P8](w).Query() // locks the world
		nIDs, nObs := len(ecs.ComponentIDs(w)), w.Stats().Observers
		if try(func() { obs.Register(w) }) == nil {
			out = append(out, "registering an observer that names a new component type on a locked world did not panic")
		}
		if a, b := len(ecs.ComponentIDs(w)), w.Stats().Observers; a != nIDs || b != nObs {
			out = append(out, fmt.Sprintf("the rejected registration changed component IDs %d->%d / observers %d->%d", nIDs, a, nObs, b))
		}
		q.Close()
		// the rejected call had no effect: the same call succeeds now, the observer fires and can be unregistered
		if p := try(func() { obs.Register(w) }); p != nil {
			out = append(out, fmt.Sprintf("Register after the rejected attempt panics: %v", p))
			return out
		}
		ecs.NewMap1[u.LateObs1](w).Add(e, &u.LateObs1{})
		if fired != 1 {
			out = append(out, fmt.Sprintf("observer fired %d times after registration, want 1", fired))
		}
		if p := try(func() { obs.Unregister(w) }); p != nil {
			out = append(out, fmt.Sprintf("Unregister panics: %v", p))
		}
		return out
	}},
	{Name: "F23-relidx-255", Props: []string{"C18", "C03"}, Run: func() []string {
		var out []string
		if len(maxComponentIDs(ecs.NewWorld())) < 256 {
			return nil // 64-type build: index 255 does not exist
		}
		w := ecs.NewWorld(4)
		idA := ecs.ComponentID[manyRel[[0]byte]](w)
		ids := []ecs.ID{idA}
		for _, c := range manyPlain {
			ids = append(ids, ecs.TypeID(w, c.Type()))
		}
		idB := ecs.ComponentID[manyRel[[1]byte]](w)
		ids = append(ids, idB)
		p1, p2 := w.NewEntity(), w.NewEntity()
		w.Unsafe().NewEntityRel(ids, ecs.RelID(idA, p1), ecs.RelID(idB, p2))
		with := append(append([]ecs.Comp{}, manyPlain...), ecs.C[manyRel[[1]byte]]())
		f := ecs.NewFilter1[manyRel[[0]byte]](w).With(with...)
		count := func(rel ...ecs.Relation) int {
			q := f.Query(rel...)
			n := q.Count()
			q.Close()
			return n
		}
		if n := count(ecs.Rel[manyRel[[1]byte]](p2)); n != 1 {
			out = append(out, fmt.Sprintf("reference query by type counts %d, want 1", n))
		}
		if n := count(ecs.RelIdx(255, p2)); n != 1 {
			out = append(out, fmt.Sprintf("RelIdx(255, target of the 256th filter component) counts %d entities, want 1", n))
		}
		if n := count(ecs.RelIdx(255, p1)); n != 0 {
			out = append(out, fmt.Sprintf("RelIdx(255, another entity) counts %d entities, want 0", n))
		}
		return out
	}},
	{Name: "F24-filter-with-256-relation-targets", Props: []string{"C18", "C03", "C05"}, Run: func() []string {
		var out []string
		if len(maxComponentIDs(ecs.NewWorld())) < 256 {
			return nil
		}
		w := ecs.NewWorld(4)
		ids := []ecs.ID{ecs.ComponentID[manyRel[[0]byte]](w)}
		for _, c := range manyRels {
			ids = append(ids, ecs.TypeID(w, c.Type()))
		}
		p1, p2 := w.NewEntity(), w.NewEntity()
		rels := func(t ecs.Entity) []ecs.Relation {
			r := make([]ecs.Relation, len(ids))
			for i, id := range ids {
				r[i] = ecs.RelID(id, t)
			}
			return r
		}
		e1 := w.Unsafe().NewEntityRel(ids, rels(p1)...)
		e2 := w.Unsafe().NewEntityRel(ids, rels(p2)...)
		collect := func(f *ecs.Filter1[manyRel[[0]byte]]) []ecs.Entity {
			var got []ecs.Entity
			q := f.Query()
			for q.Next() {
				got = append(got, q.Entity())
			}
			return got
		}
		if got := collect(ecs.NewFilter1[manyRel[[0]byte]](w).With(manyRels...).Relations(rels(p1)[:255]...)); len(got) != 1 || got[0] != e1 {
			out = append(out, fmt.Sprintf("filter with 255 fixed relation targets yields %v, want [%v]", got, e1))
		}
		if got := collect(ecs.NewFilter1[manyRel[[0]byte]](w).With(manyRels...).Relations(rels(p1)...)); len(got) != 1 || got[0] != e1 {
			out = append(out, fmt.Sprintf("filter with 256 fixed relation targets yields %v, want [%v]", got, e1))
		}
		fc := ecs.NewFilter1[manyRel[[0]byte]](w).With(manyRels...).Relations(rels(p2)...).Register()
		if got := collect(fc); len(got) != 1 || got[0] != e2 {
			out = append(out, fmt.Sprintf("registered filter with 256 fixed relation targets yields %v, want [%v]", got, e2))
		}
		fc.Unregister()
		return out
	}},
	{Name: "F25-target-of-a-table-created-by-a-rejected-batch-call", Props: []string{"C10", "C04"}, Run: func() []string {
		var out []string
		{
			w := ecs.NewWorld(4)
			pm := ecs.NewMap1[u.P8](w)
			both := ecs.NewMap2[u.P8, u.R0](w)
			rm := ecs.NewMap[u.R0](w)
			U := w.Unsafe()
			rid := ecs.ComponentID[u.R0](w)
			target := w.NewEntity()
			e1 := pm.NewEntity(&u.P8{V: 1})
			both.NewEntity(&u.P8{V: 2}, &u.R0{}, ecs.Rel[u.R0](ecs.Entity{}))
			// rejected: the second selected entity already has R0 (the destination table of the first one exists by then)
			if try(func() { rm.AddBatch(ecs.NewFilter1[u.P8](w).Batch(), &u.R0{}, target) }) == nil {
				out = append(out, "AddBatch of a component an entity already has did not panic")
			}
			w.RemoveEntity(target)
			if try(func() { U.AddRel(e1, []ecs.ID{rid}, ecs.RelID(rid, target)) }) == nil {
				out = append(out, fmt.Sprintf("after a rejected AddBatch, Unsafe.AddRel accepts the removed entity %v as relation target", target))
			}
		}
		{
			w := ecs.NewWorld(4)
			pm := ecs.NewMap1[u.P8](w)
			both := ecs.NewMap2[u.P8, u.R0](w)
			rm := ecs.NewMap[u.R0](w)
			U := w.Unsafe()
			rid := ecs.ComponentID[u.R0](w)
			target := w.NewEntity()
			e1 := both.NewEntity(&u.P8{V: 2}, &u.R0{}, ecs.Rel[u.R0](ecs.Entity{}))
			pm.NewEntity(&u.P8{V: 1})
			if try(func() { rm.SetRelationBatch(ecs.NewFilter1[u.P8](w).Batch(), target, nil) }) == nil {
				out = append(out, "SetRelationBatch over an entity without the relation component did not panic")
			}
			w.RemoveEntity(target)
			if try(func() { U.SetRelations(e1, ecs.RelID(rid, target)) }) == nil {
				out = append(out, fmt.Sprintf("after a rejected SetRelationBatch, Unsafe.SetRelations accepts the removed entity %v as relation target", target))
			}
		}
		return out
	}},
	{Name: "F26-foreign-relation-component-hides-omitted-target", Props: []string{"C10", "C04"}, Run: func() []string {
		var out []string
		w := ecs.NewWorld(4)
		U := w.Unsafe()
		a, b, c := ecs.ComponentID[u.R0](w), ecs.ComponentID[u.R1](w), ecs.ComponentID[u.R2](w)
		parent, friend := w.NewEntity(), w.NewEntity()
		both := []ecs.ID{a, b}
		e := w.NewEntity()
		if try(func() { U.AddRel(e, both, ecs.RelID(a, parent), ecs.RelID(c, parent)) }) == nil {
			out = append(out, "no table yet: a target for a relation outside the archetype instead of the required one was accepted")
		}
		U.NewEntityRel(both, ecs.RelID(a, parent), ecs.RelID(b, friend))
		if try(func() { U.AddRel(e, both, ecs.RelID(a, parent), ecs.RelID(c, parent)) }) == nil {
			out = append(out, fmt.Sprintf("Unsafe.AddRel: the omitted target for R1 was not rejected; the entity got R1 -> %v", U.GetRelation(e, b)))
		}
		if try(func() { U.NewEntityRel(both, ecs.RelID(a, parent), ecs.RelID(c, parent)) }) == nil {
			out = append(out, "Unsafe.NewEntityRel: the omitted target for R1 was not rejected")
		}
		return out
	}},
	{Name: "F27-emit-for-a-removed-entity", Props: []string{"C10"}, Run: func() []string {
		var out []string
		w := ecs.NewWorld(4)
		var reg ecs.EventRegistry
		ev := reg.NewEventType()
		e := w.NewEntity()
		w.RemoveEntity(e)
		if try(func() { w.Event(ev).Emit(e) }) == nil {
			out = append(out, "Event.Emit for a removed entity did not panic (no observer registered)")
		}
		w.NewEntity() // recycles the ID
		if try(func() { w.Event(ev).Emit(e) }) == nil {
			out = append(out, "Event.Emit for a stale handle with a recycled ID did not panic (no observer registered)")
		}
		if p := try(func() { w.Event(ev).Emit(ecs.Entity{}) }); p != nil {
			out = append(out, fmt.Sprintf("Event.Emit for the zero entity panicked: %v", p))
		}
		return out
	}},
	{Name: "F29-column-of-2-GiB", Props: []string{"C01", "C11"}, OnlyIf: func() bool { return os.Getenv("VERIF_BIGMEM") == "1" }, Run: func() []string {
		// thorough tier only (about 2 GiB resident, 15 s): a pointer-free column of exactly 2 GiB must be able to grow
		var out []string
		const n = 2048
		w := ecs.NewWorld(n)
		m := ecs.NewMap1[bigComp](w)
		var first, last ecs.Entity
		i := 0
		m.NewBatchFn(n, func(e ecs.Entity, c *bigComp) {
			if i == 0 {
				first = e
				c.Data[0], c.Data[len(c.Data)-1] = 11, 12
			}
			if i == n-1 {
				last = e
				c.Data[0], c.Data[len(c.Data)-1] = 21, 22
			}
			i++
		})
		var extra ecs.Entity
		if p := try(func() { extra = m.NewEntityFn(func(c *bigComp) { c.Data[0] = 31 }) }); p != nil {
			return []string{fmt.Sprintf("creating entity %d with a 1 MiB component (the column holds 2 GiB) panicked while the table grows: %v", n+1, p)}
		}
		for _, x := range []struct {
			e    ecs.Entity
			a, b byte
		}{{first, 11, 12}, {last, 21, 22}, {extra, 31, 0}} {
			if c := m.Get(x.e); c.Data[0] != x.a || c.Data[len(c.Data)-1] != x.b {
				out = append(out, fmt.Sprintf("component of %v changed by the growth: %d %d", x.e, c.Data[0], c.Data[len(c.Data)-1]))
			}
		}
		return out
	}},
	{Name: "S1-reset-with-a-full-resource-registry", Props: []string{"C16", "C18"}, Run: func() []string {
		// every resource slot in use (256, or 64 in the tiny build): Reset removes all of them
		var out []string
		w := ecs.NewWorld(4)
		var ids []ecs.ResID
		for k := 0; k < 300; k++ {
			var id ecs.ResID
			if try(func() { id = ecs.ResourceTypeID(w, u.Filler(k)) }) != nil {
				break
			}
			ids = append(ids, id)
		}
		if len(ids) != 256 && len(ids) != 64 {
			return []string{fmt.Sprintf("%d resource types could be registered, want 256 (64 in the tiny build)", len(ids))}
		}
		res := w.Resources()
		for i, id := range ids {
			if i%5 != 3 {
				v := int64(i)
				res.Add(id, &v)
			}
		}
		w.Reset()
		left := 0
		for _, id := range ids {
			if res.Has(id) {
				left++
			}
		}
		if left != 0 {
			out = append(out, fmt.Sprintf("%d resources are still present after Reset (all %d resource types registered)", left, len(ids)))
		}
		v := int64(7)
		if p := try(func() { res.Add(ids[0], &v) }); p != nil {
			out = append(out, fmt.Sprintf("adding a resource again after Reset panics: %v", p))
		}
		return out
	}},
	{Name: "K1-loaded-world-reports-pre-reset-handles-alive", Props: []string{"C17"}, Run: func() []string {
		// KNOWN FINDING (not repaired, see DESIGN section 5): World.Alive reads the pool through a raw pointer without
		// bounds check; LoadEntities installs a pool of exactly the dump's length, so for handles the source world issued
		// before a Reset (dead in the source) with IDs beyond that length the loaded world reads past its pool.
		var out []string
		src := ecs.NewWorld(4)
		var old []ecs.Entity
		for i := 0; i < 1000; i++ {
			old = append(old, src.NewEntity())
		}
		src.Reset()
		src.NewEntity()
		src.NewEntity()
		dump := src.Unsafe().DumpEntities()
		dst := ecs.NewWorld(4)
		dst.Unsafe().LoadEntities(&dump)
		n := 0
		for _, h := range old[2:] {
			if src.Alive(h) != dst.Alive(h) {
				n++
			}
		}
		if n > 0 {
			out = append(out, fmt.Sprintf("%d of %d handles issued by the source world before its Reset are dead in the source and alive in the loaded world", n, len(old)-2))
		}
		return out
	}},
}

// bigComp is a pointer-free component of 1 MiB.
type bigComp struct{ Data [1 << 20]byte }

// maxComponentIDs registers filler component types until the registry is full and returns all IDs.
func maxComponentIDs(w *ecs.World) []ecs.ID {
	var ids []ecs.ID
	for k := 0; k < 300; k++ {
		var id ecs.ID
		if p := try(func() { id = ecs.TypeID(w, u.Filler(k)) }); p != nil {
			break
		}
		ids = append(ids, id)
	}
	return ids
}

var _ = unsafe.Pointer(nil)
