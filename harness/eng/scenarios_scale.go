package eng

import (
	"fmt"
	"reflect"
	"runtime"
	"sync/atomic"
	"unsafe"

	"github.com/mlange-42/ark/ecs"
	"verifharness/typed"
	u "verifharness/universe"
)

// Boundary scenarios (B-series): scripted, deterministic workloads that push one counter or index of the library across
// 2^8 or 2^16 - sizes no generated history of a few hundred ops reaches - each with an oracle that needs no model:
// a twin object, a count kept by the scenario, or the per-entity equivalent of a batch call.

func init() {
	Scenarios = append(Scenarios,
		Scenario{Name: "B1-batch-removal-of-255-256-257-600-relation-targets", Props: []string{"C02", "C04", "C06"}, Run: b1},
		Scenario{Name: "B2-66000-filter-registrations-in-one-world", Props: []string{"C05"}, Run: b2},
		Scenario{Name: "B3-70000-queries-in-one-world", Props: []string{"C07"}, Run: b3},
		Scenario{Name: "B4-300-and-66000-relation-tables-in-one-archetype", Props: []string{"C03", "C04"}, Run: b4},
		Scenario{Name: "B5-table-of-70000-rows", Props: []string{"C01", "C11"}, Run: b5},
		Scenario{Name: "B6-300-observers-and-70000-observer-registrations", Props: []string{"C08"}, Run: b6},
		Scenario{Name: "B7-one-id-recycled-70000-times", Props: []string{"C02"}, Run: b7},
	)
}

func b1() []string {
	var out []string
	for _, n := range []int{255, 256, 257, 600} {
		for order := 0; order < 2; order++ {
			for withCb := 0; withCb < 2; withCb++ {
				w := ecs.NewWorld(8, 1)
				pm := ecs.NewMap1[u.P8](w)
				cm := ecs.NewMap2[u.R0, u.P4](w)
				if order == 1 {
					// the children's archetype exists (and is listed) before the parents'
					seed := w.NewEntity()
					tmp := cm.NewEntity(&u.R0{}, &u.P4{V: 1}, ecs.RelIdx(0, seed))
					w.RemoveEntity(tmp)
					w.RemoveEntity(seed)
				}
				var all []ecs.Entity
				parents := make([]ecs.Entity, n)
				for i := range parents {
					parents[i] = pm.NewEntity(&u.P8{V: int64(i)})
				}
				all = append(all, parents...)
				for i := range parents {
					for k := 0; k < 1+i%2; k++ {
						all = append(all, cm.NewEntity(&u.R0{}, &u.P4{V: int32(i)}, ecs.RelIdx(0, parents[i])))
					}
				}
				keep := pm.NewEntity(&u.P8{V: -1}) // not selected: has P2 as well
				ecs.NewMap1[u.P2](w).Add(keep, &u.P2{V: 3})
				calls := 0
				var fn func(ecs.Entity)
				if withCb == 1 {
					fn = func(ecs.Entity) { calls++ }
				}
				f := ecs.NewFilter0(w).Without(ecs.C[u.P2]())
				if p := try(func() { w.RemoveEntities(f.Batch(), fn) }); p != nil {
					out = append(out, fmt.Sprintf("n=%d order=%d: RemoveEntities panicked: %v", n, order, p))
					continue
				}
				alive := 0
				for _, e := range all {
					if w.Alive(e) {
						alive++
					}
				}
				used := w.Stats().Entities.Used
				if alive != 0 || used != 1 || !w.Alive(keep) || (withCb == 1 && calls != len(all)) {
					out = append(out, fmt.Sprintf("RemoveEntities over %d relation targets and their children (children's archetype first: %v): %d of %d selected entities are still alive, Stats Used=%d (want 1), callback calls %d", n, order == 1, alive, len(all), used, calls))
				}
				if len(ents(w)) != 1 {
					out = append(out, fmt.Sprintf("n=%d order=%d: a query finds %d entities after the batch removal, want 1", n, order, len(ents(w))))
				}
			}
		}
	}
	return out
}

func b2() []string {
	var out []string
	w := ecs.NewWorld(16)
	m8 := ecs.NewMap1[u.P8](w)
	m84 := ecs.NewMap2[u.P8, u.P4](w)
	for i := 0; i < 5; i++ {
		m8.NewEntity(&u.P8{V: int64(i)})
	}
	for i := 0; i < 3; i++ {
		m84.NewEntity(&u.P8{V: int64(10 + i)}, &u.P4{V: 1})
	}
	a := ecs.NewFilter1[u.P8](w).Register()
	twin := ecs.NewFilter1[u.P8](w)
	list := func(f *ecs.Filter1[u.P8]) string {
		q := f.Query()
		s := fmt.Sprint(q.Count(), ":")
		for q.Next() {
			s += fmt.Sprint(q.Entity(), q.Get().V, " ")
		}
		return s
	}
	const total = 66000
	for k := 0; k < total && len(out) < 5; k++ {
		b := ecs.NewFilter2[u.P8, u.P4](w)
		if p := try(func() { b.Register() }); p != nil {
			out = append(out, fmt.Sprintf("registration %d in this world panicked: %v", k+2, p))
			break
		}
		if k%4096 == 0 || (k >= 65528 && k <= 65544) {
			if la, lt := list(a), list(twin); la != lt {
				out = append(out, fmt.Sprintf("after %d registrations the long-registered filter yields %q, its unregistered twin %q", k+2, la, lt))
			}
			q := b.Query()
			if c := q.Count(); c != 3 {
				out = append(out, fmt.Sprintf("filter registered as number %d counts %d entities, want 3", k+2, c))
			}
			q.Close()
			if n := w.Stats().CachedFilters; n != 2 {
				out = append(out, fmt.Sprintf("after %d registrations Stats().CachedFilters=%d, want 2", k+2, n))
			}
			if k%8192 == 0 {
				e := m84.NewEntity(&u.P8{V: int64(k)}, &u.P4{V: 2}) // tables keep changing under the registered filters
				if la, lt := list(a), list(twin); la != lt {
					out = append(out, fmt.Sprintf("after %d registrations and one more entity the long-registered filter yields %q, its unregistered twin %q", k+2, la, lt))
				}
				w.RemoveEntity(e)
			}
		}
		if p := try(func() { b.Unregister() }); p != nil {
			out = append(out, fmt.Sprintf("Unregister of the filter registered as number %d panicked: %v", k+2, p))
			break
		}
	}
	if p := try(func() { a.Unregister() }); p != nil {
		out = append(out, fmt.Sprintf("Unregister of the long-registered filter panicked: %v", p))
	}
	return out
}

func b3() []string {
	var out []string
	w := ecs.NewWorld(8)
	m8 := ecs.NewMap1[u.P8](w)
	for i := 0; i < 4; i++ {
		m8.NewEntity(&u.P8{V: int64(i)})
	}
	f := ecs.NewFilter1[u.P8](w)
	g := ecs.NewFilter1[u.P8](w).Register()
	for k := 0; k < 70000 && len(out) < 5; k++ {
		q1 := f.Query()
		q2 := g.Query()
		if !w.IsLocked() {
			out = append(out, fmt.Sprintf("query %d: world not locked while two queries are open", 2*k))
		}
		if k%3 == 0 {
			for q1.Next() {
			}
		} else {
			q1.Close()
		}
		if !w.IsLocked() {
			out = append(out, fmt.Sprintf("query %d: closing one of two queries unlocked the world", 2*k))
		}
		n := 0
		for q2.Next() {
			n++
		}
		if n != 4 || w.IsLocked() {
			out = append(out, fmt.Sprintf("query %d: visited %d entities (want 4), locked afterwards: %v", 2*k+1, n, w.IsLocked()))
		}
		if k%8192 == 0 {
			if p := try(func() { w.RemoveEntity(w.NewEntity()) }); p != nil {
				out = append(out, fmt.Sprintf("after %d queries a structural operation on the unlocked world panics: %v", 2*k+2, p))
			}
		}
	}
	return out
}

func b4() []string {
	var out []string
	for _, n := range []int{300, 66000} {
		w := ecs.NewWorld(1024, 1)
		pm := ecs.NewMap1[u.P8](w)
		cm := ecs.NewMap2[u.R0, u.P4](w)
		parents := make([]ecs.Entity, n)
		pm.NewBatchFn(n, func(e ecs.Entity, p *u.P8) { p.V = int64(len(parents)); parents = append(parents, e) })
		parents = parents[n:]
		if len(parents) != n {
			return append(out, fmt.Sprintf("NewBatchFn(%d) called back %d times", n, len(parents)))
		}
		children := make([]ecs.Entity, n)
		for i := range children {
			children[i] = cm.NewEntity(&u.R0{}, &u.P4{V: int32(i)}, ecs.RelIdx(0, parents[i]))
		}
		f := ecs.NewFilter2[u.R0, u.P4](w)
		g := ecs.NewFilter2[u.R0, u.P4](w).Register()
		q := f.Query()
		if c := q.Count(); c != n {
			out = append(out, fmt.Sprintf("%d relation tables: unrestricted query counts %d", n, c))
		}
		q.Close()
		probe := []int{0, 1, 254, 255, 256, 257, n / 2, n - 2, n - 1}
		if n > 65537 {
			probe = append(probe, 65534, 65535, 65536, 65537)
		}
		check := func(when string) {
			for _, i := range probe {
				for ci, ff := range []*ecs.Filter2[u.R0, u.P4]{f, g} {
					q := ff.Query(ecs.RelIdx(0, parents[i]))
					seen := 0
					for q.Next() {
						seen++
						_, p4 := q.Get()
						if q.Entity() != children[i] || int(p4.V) != i || q.GetRelation(0) != parents[i] {
							out = append(out, fmt.Sprintf("%d relation tables, %s: query for target %d (cached=%v) visits %v with value %d and target %v", n, when, i, ci == 1, q.Entity(), p4.V, q.GetRelation(0)))
						}
					}
					if seen != 1 && w.Alive(parents[i]) {
						out = append(out, fmt.Sprintf("%d relation tables, %s: query for target %d (cached=%v) visits %d entities, want 1", n, when, i, ci == 1, seen))
					}
				}
				if t := cm.GetRelation(children[i], 0); t != parents[i] && w.Alive(parents[i]) {
					out = append(out, fmt.Sprintf("%d relation tables, %s: child %d has target %v, want %v", n, when, i, t, parents[i]))
				}
			}
		}
		check("after creation")
		// every third probed target dies: its child is detached, the others are untouched
		dead := map[int]bool{}
		for k, i := range probe {
			if k%3 == 0 && !dead[i] && w.Alive(parents[i]) {
				w.RemoveEntity(parents[i])
				dead[i] = true
			}
		}
		for i := range dead {
			if t := cm.GetRelation(children[i], 0); !t.IsZero() {
				out = append(out, fmt.Sprintf("%d relation tables: child %d of a removed target has target %v, want the zero entity", n, i, t))
			}
		}
		alive := probe[:0:0]
		for _, i := range probe {
			if !dead[i] {
				alive = append(alive, i)
			}
		}
		probe = alive
		check("after some targets died")
		for ci, ff := range []*ecs.Filter2[u.R0, u.P4]{f, g} {
			q := ff.Query(ecs.RelIdx(0, ecs.Entity{}))
			if c := q.Count(); c != len(dead) {
				out = append(out, fmt.Sprintf("%d relation tables: query for the zero target (cached=%v) counts %d, want %d", n, ci == 1, c, len(dead)))
			}
			q.Close()
		}
		if used := w.Stats().Entities.Used; used != 2*n-len(dead) {
			out = append(out, fmt.Sprintf("%d relation tables: Stats Used=%d, want %d", n, used, 2*n-len(dead)))
		}
		if len(out) > 8 {
			break
		}
	}
	return out
}

func b5() []string {
	var out []string
	const n = 70000
	w := ecs.NewWorld(64)
	m := ecs.NewMap2[u.P8, u.P2](w)
	es := make([]ecs.Entity, 0, n)
	m.NewBatchFn(n, func(e ecs.Entity, a *u.P8, b *u.P2) {
		a.V = int64(len(es)) * 3
		b.V = uint16(len(es))
		es = append(es, e)
	})
	bad := 0
	verify := func(when string, removed func(i int) bool) {
		for i, e := range es {
			if removed(i) {
				if w.Alive(e) {
					bad++
				}
				continue
			}
			a, b := m.Get(e)
			if a.V != int64(i)*3 || b.V != uint16(i) {
				bad++
				if bad < 4 {
					out = append(out, fmt.Sprintf("table of %d rows, %s: entity %d reads (%d,%d), want (%d,%d)", n, when, i, a.V, b.V, i*3, uint16(i)))
				}
			}
		}
	}
	verify("after creation", func(int) bool { return false })
	for i := 0; i < n; i += 3 {
		w.RemoveEntity(es[i]) // swap-removes: rows move down from the end
	}
	verify("after removing every third entity", func(i int) bool { return i%3 == 0 })
	f := ecs.NewFilter2[u.P8, u.P2](w)
	q := f.Query()
	cnt := q.Count()
	seen := 0
	for q.Next() {
		a, b := q.Get()
		if a.V%3 != 0 || uint16(a.V/3) != b.V {
			bad++
		}
		seen++
	}
	want := n - (n+2)/3
	if cnt != want || seen != want {
		out = append(out, fmt.Sprintf("table of %d rows: query counts %d and visits %d entities, want %d", n, cnt, seen, want))
	}
	// whole-table batch removal, then creations without initial values read zero
	w.RemoveEntities(f.Batch(), nil)
	zero := 0
	m.NewBatchFn(1000, func(e ecs.Entity, a *u.P8, b *u.P2) {
		if a.V != 0 || b.V != 0 {
			zero++
		}
	})
	if zero > 0 {
		out = append(out, fmt.Sprintf("after emptying a table of %d rows, %d of 1000 entities created without initial values read non-zero values", want, zero))
	}
	if bad > 0 {
		out = append(out, fmt.Sprintf("table of %d rows: %d wrong reads in total", n, bad))
	}
	return out
}

func b6() []string {
	var out []string
	w := ecs.NewWorld(8)
	m8 := ecs.NewMap1[u.P8](w)
	// 300 observers of one event type at once
	counts := make([]int, 300)
	obs := make([]*ecs.Observer, 300)
	for i := range obs {
		i := i
		o := ecs.Observe(ecs.OnCreateEntity).Do(func(ecs.Entity) { counts[i]++ })
		if i%2 == 1 {
			o = o.With(ecs.C[u.P8]())
		}
		obs[i] = o.Register(w)
	}
	m8.NewEntity(&u.P8{V: 1})
	w.NewEntity()
	for i, c := range counts {
		want := 2
		if i%2 == 1 {
			want = 1
		}
		if c != want {
			out = append(out, fmt.Sprintf("observer %d of 300 registered for OnCreateEntity was called %d times, want %d", i, c, want))
			break
		}
	}
	if n := w.Stats().Observers; n != 300 {
		out = append(out, fmt.Sprintf("Stats().Observers=%d with 300 registered observers", n))
	}
	for i := 0; i < 300; i += 2 {
		obs[i].Unregister(w)
	}
	before := append([]int{}, counts...)
	w.NewEntity()
	for i := range counts {
		want := before[i]
		if len(out) < 5 && counts[i] != want {
			out = append(out, fmt.Sprintf("after unregistering the even observers, observer %d was called %d more times for an entity without components, want 0", i, counts[i]-before[i]))
		}
	}
	for i := 1; i < 300; i += 2 {
		obs[i].Unregister(w)
	}
	// one long-lived observer, one that is registered and unregistered 70000 times
	long, short := 0, 0
	lo := ecs.Observe(ecs.OnCreateEntity).Do(func(ecs.Entity) { long++ }).Register(w)
	so := ecs.Observe(ecs.OnCreateEntity).Do(func(ecs.Entity) { short++ })
	created := 0
	for k := 0; k < 70000 && len(out) < 5; k++ {
		if p := try(func() { so.Register(w) }); p != nil {
			out = append(out, fmt.Sprintf("observer registration %d in this world panicked: %v", k+302, p))
			break
		}
		if k%4096 == 0 || (k >= 65528 && k <= 65544) || (k >= 250 && k <= 260) {
			e := w.NewEntity()
			created++
			w.RemoveEntity(e)
			if long != created || short != created {
				out = append(out, fmt.Sprintf("after %d observer registrations: long-lived observer called %d times, the re-registered one %d times, want %d", k+302, long, short, created))
			}
		}
		if p := try(func() { so.Unregister(w) }); p != nil {
			out = append(out, fmt.Sprintf("Unregister after observer registration %d panicked: %v", k+302, p))
			break
		}
	}
	e := w.NewEntity()
	created++
	w.RemoveEntity(e)
	if long != created || short != created-1 {
		out = append(out, fmt.Sprintf("at the end: long-lived observer called %d times (want %d), the unregistered one %d times (want %d)", long, created, short, created-1))
	}
	lo.Unregister(w)
	return out
}

func b7() []string {
	var out []string
	w := ecs.NewWorld(4)
	a := w.NewEntity()
	seen := map[ecs.Entity]bool{a: true}
	first := w.NewEntity()
	seen[first] = true
	prev := first
	w.RemoveEntity(prev)
	var old []ecs.Entity
	for k := 0; k < 70000 && len(out) < 5; k++ {
		e := w.NewEntity()
		if seen[e] {
			out = append(out, fmt.Sprintf("creation %d returned handle %v again", k+3, e))
		}
		seen[e] = true
		if w.Alive(prev) || !w.Alive(e) || !w.Alive(a) {
			out = append(out, fmt.Sprintf("creation %d: Alive(previous %v)=%v Alive(new %v)=%v Alive(bystander)=%v", k+3, prev, w.Alive(prev), e, w.Alive(e), w.Alive(a)))
		}
		if k%257 == 0 || k == 255 || k == 256 || k == 65535 || k == 65536 {
			old = append(old, e)
		}
		w.RemoveEntity(e)
		prev = e
	}
	for _, e := range old {
		if w.Alive(e) {
			out = append(out, fmt.Sprintf("handle %v of a long removed incarnation is reported alive", e))
			break
		}
	}
	if s := w.Stats().Entities; s.Used != 1 || s.Total != 2 {
		out = append(out, fmt.Sprintf("after 70000 create/remove cycles of one ID: %+v, want Used 1 Total 2", s))
	}
	return out
}

type big65535 struct{ B [65535]byte }
type big65536 struct{ B [65536]byte }
type big65537 struct{ B [65537]byte }
type big70000 struct{ B [70000]byte }
type big131072 struct{ B [131072]byte }

func init() {
	Scenarios = append(Scenarios, Scenario{Name: "B8-components-of-64KiB-and-more", Props: []string{"C01", "C11"}, Run: func() []string {
		var out []string
		out = append(out, bigComponent[big65535]()...)
		out = append(out, bigComponent[big65536]()...)
		out = append(out, bigComponent[big65537]()...)
		out = append(out, bigComponent[big70000]()...)
		out = append(out, bigComponent[big131072]()...)
		return out
	}})
}

// bigComponent drives a component type of 64 KiB or more through creation, moves, swap-removal, queries and creation without
// initial values; every byte position class (first, last, around 2^16) carries the owner's tag.
func bigComponent[T any]() []string {
	var out []string
	var zero T
	size := int(unsafe.Sizeof(zero))
	bytesOf := func(p *T) []byte { return unsafe.Slice((*byte)(unsafe.Pointer(p)), size) }
	pos := []int{0, 1, size / 2, size - 1}
	for _, p := range []int{65534, 65535, 65536, 65537} {
		if p < size {
			pos = append(pos, p)
		}
	}
	fill := func(p *T, tag byte) {
		b := bytesOf(p)
		for _, i := range pos {
			b[i] = tag
		}
	}
	ok := func(p *T, tag byte) bool {
		b := bytesOf(p)
		for _, i := range pos {
			if b[i] != tag {
				return false
			}
		}
		return true
	}
	w := ecs.NewWorld(2)
	m := ecs.NewMap1[T](w)
	m8 := ecs.NewMap1[u.P8](w)
	es := make([]ecs.Entity, 6)
	for i := range es {
		var v T
		fill(&v, byte(i+1))
		es[i] = m.NewEntity(&v)
	}
	verify := func(when string, skip int) {
		for i, e := range es {
			if i == skip {
				continue
			}
			if !ok(m.Get(e), byte(i+1)) {
				out = append(out, fmt.Sprintf("component of %d bytes, %s: entity %d does not read its own value at one of the offsets %v", size, when, i, pos))
				return
			}
		}
	}
	verify("after creation", -1)
	fill(m.Get(es[3]), 3+1) // rewriting one entity's value leaves the others alone
	verify("after rewriting entity 3", -1)
	m8.Add(es[2], &u.P8{V: 5}) // moves entity 2 to another table (swap-removes in the old one)
	verify("after moving entity 2", -1)
	m8.Remove(es[2])
	verify("after moving entity 2 back", -1)
	w.RemoveEntity(es[0])
	verify("after removing entity 0", 0)
	f := ecs.NewFilter1[T](w)
	q := f.Query()
	n := 0
	for q.Next() {
		n++
		tag := byte(0)
		for i, e := range es {
			if e == q.Entity() {
				tag = byte(i + 1)
			}
		}
		if !ok(q.Get(), tag) {
			out = append(out, fmt.Sprintf("component of %d bytes: the query hands out a pointer for %v that does not read the entity's value", size, q.Entity()))
		}
	}
	if n != 5 {
		out = append(out, fmt.Sprintf("component of %d bytes: query visits %d entities, want 5", size, n))
	}
	w.RemoveEntities(f.Batch(), nil)
	m.NewBatchFn(3, func(e ecs.Entity, p *T) {
		if !ok(p, 0) {
			out = append(out, fmt.Sprintf("component of %d bytes: an entity created without initial value reads non-zero bytes", size))
		}
	})
	return out
}

func init() {
	Scenarios = append(Scenarios, Scenario{Name: "F34-rejected-creation-leaves-an-archetype-without-table", Props: []string{"C03", "C07", "C16"}, Run: func() []string {
		// a creation that is rejected because a non-relation component is named as relation (the archetype being new)
		// must leave a world in which queries, creations and Reset work
		var out []string
		for variant := 0; variant < 3; variant++ {
			w := ecs.NewWorld(4)
			p8 := ecs.ComponentID[u.P8](w)
			p4 := ecs.ComponentID[u.P4](w)
			r0 := ecs.ComponentID[u.R0](w)
			tgt := w.NewEntity()
			var p any
			switch variant {
			case 0:
				p = try(func() { w.Unsafe().NewEntityRel([]ecs.ID{p8}, ecs.RelID(p8, ecs.Entity{})) })
			case 1:
				e := w.NewEntity()
				p = try(func() { w.Unsafe().AddRel(e, []ecs.ID{p8, p4}, ecs.RelID(p4, tgt)) })
			case 2:
				// a relation component that is not among the components of the new archetype
				p = try(func() { w.Unsafe().NewEntityRel([]ecs.ID{p8}, ecs.RelID(r0, tgt)) })
			}
			what := fmt.Sprintf("variant %d (the call panicked: %v)", variant, p != nil)
			if pq := try(func() {
				q := ecs.NewFilter1[u.P8](w).Query()
				n := q.Count()
				for q.Next() {
				}
				if p != nil && n != 0 {
					out = append(out, fmt.Sprintf("%s: a query for the component counts %d entities after the rejected creation", what, n))
				}
			}); pq != nil {
				out = append(out, fmt.Sprintf("%s: a valid query panicked afterwards: %v", what, pq))
			}
			if w.IsLocked() {
				out = append(out, fmt.Sprintf("%s: the world is left locked", what))
				continue
			}
			if pc := try(func() { ecs.NewMap1[u.P8](w).NewEntity(&u.P8{V: 1}) }); pc != nil {
				out = append(out, fmt.Sprintf("%s: a valid creation panicked afterwards: %v", what, pc))
			}
			if pr := try(func() { w.Reset() }); pr != nil {
				out = append(out, fmt.Sprintf("%s: Reset panicked afterwards: %v", what, pr))
			}
		}
		return out
	}})
}

func init() {
	Scenarios = append(Scenarios, Scenario{Name: "F35-world-usable-after-a-rejected-65th-query", Props: []string{"C07"}, Run: func() []string {
		// 64 queries may be open at once; a 65th is rejected with a panic. After recovering from it the 64 open queries can
		// still be closed and the world unlocks. (A blocked Close is recognised by the state of the closing goroutine - waiting for a mutex that nobody can
		// release - not by elapsed time, see completes.)
		var out []string
		w := ecs.NewWorld(4)
		m := ecs.NewMap1[u.P8](w)
		m.NewEntity(&u.P8{V: 1})
		f := ecs.NewFilter1[u.P8](w)
		qs := make([]ecs.Query1[u.P8], 64)
		for i := range qs {
			qs[i] = f.Query()
		}
		if p := try(func() { f.Query() }); p == nil {
			out = append(out, "a 65th simultaneous query was accepted")
		}
		if !completes(func() {
			for i := range qs {
				qs[i].Close()
			}
		}) {
			return append(out, "after the rejected 65th query, closing the 64 open queries blocks for ever (the lock's mutex is still held)")
		}
		if w.IsLocked() {
			out = append(out, "world still locked after all 64 queries were closed")
		}
		if p := try(func() { w.RemoveEntity(w.NewEntity()) }); p != nil {
			out = append(out, fmt.Sprintf("structural operation after closing all queries panicked: %v", p))
		}
		q := f.Query()
		if n := q.Count(); n != 1 {
			out = append(out, fmt.Sprintf("a query after the episode counts %d, want 1", n))
		}
		q.Close()
		return out
	}})
}

type resIfcA interface{ A() int }
type resIfcB interface{ B() int }
type resImplA struct{ v int }
type resImplB struct{ v int }

func (r resImplA) A() int { return r.v }
func (r resImplB) B() int { return r.v }

func init() {
	Scenarios = append(Scenarios,
		Scenario{Name: "S2-interface-typed-resources", Props: []string{"C18"}, Run: func() []string {
			// resource types may be interface types: each is a type of its own, through the generic and the reflect-based lookup
			var out []string
			w := ecs.NewWorld(4)
			ecs.AddResource(w, &u.P8{V: 1}) // a concrete one next to them
			ida, idb := ecs.ResourceID[resIfcA](w), ecs.ResourceID[resIfcB](w)
			if ida == idb {
				out = append(out, fmt.Sprintf("two interface-typed resource types share ID %v", ida))
			}
			if ra := ecs.ResourceTypeID(w, reflect.TypeFor[resIfcA]()); ra != ida {
				out = append(out, fmt.Sprintf("ResourceID[T] gives %v, ResourceTypeID(reflect.TypeFor[T]()) gives %v for the same interface type", ida, ra))
			}
			if tp, ok := ecs.ResourceType(w, idb); !ok || tp != reflect.TypeFor[resIfcB]() {
				out = append(out, fmt.Sprintf("ResourceType(ID of an interface type) = %v, %v", tp, ok))
			}
			if again := ecs.ResourceID[resIfcA](w); again != ida {
				out = append(out, fmt.Sprintf("interface resource type maps to %v, then %v", ida, again))
			}
			var a resIfcA = resImplA{v: 7}
			var b resIfcB = resImplB{v: 9}
			resA, resB := ecs.NewResource[resIfcA](w), ecs.NewResource[resIfcB](w)
			if p := try(func() { resA.Add(&a) }); p != nil {
				out = append(out, fmt.Sprintf("adding the first interface-typed resource panicked: %v", p))
			}
			if resB.Has() {
				out = append(out, "after adding resource A, resource B is reported present")
			}
			if p := try(func() { resB.Add(&b) }); p != nil {
				out = append(out, fmt.Sprintf("adding the second interface-typed resource panicked: %v", p))
			}
			if p := try(func() {
				if g := ecs.GetResource[resIfcA](w); g == nil || (*g).A() != 7 {
					out = append(out, "GetResource of the first interface-typed resource does not return its value")
				}
				if g := resB.Get(); g == nil || (*g).B() != 9 {
					out = append(out, "Get of the second interface-typed resource does not return its value")
				}
			}); p != nil {
				out = append(out, fmt.Sprintf("reading interface-typed resources panicked: %v", p))
			}
			if p := try(func() { resA.Remove() }); p != nil {
				out = append(out, fmt.Sprintf("removing resource A panicked: %v", p))
			}
			if resA.Has() || !resB.Has() {
				out = append(out, fmt.Sprintf("after removing resource A: A present=%v, B present=%v", resA.Has(), resB.Has()))
			}
			if n := len(ecs.ResourceIDs(w)); n != 3 {
				out = append(out, fmt.Sprintf("ResourceIDs lists %d IDs for three registered resource types", n))
			}
			// a pointer type is a resource type of its own, too: *P8 is not P8, through either lookup
			idp, idv := ecs.ResourceID[*u.P8](w), ecs.ResourceID[u.P8](w)
			if rp := ecs.ResourceTypeID(w, reflect.TypeFor[*u.P8]()); rp != idp || idp == idv {
				out = append(out, fmt.Sprintf("resource type *P8: ResourceID[T] gives %v, ResourceTypeID(reflect type) gives %v, P8 has %v", idp, rp, idv))
			}
			if tp, ok := ecs.ResourceType(w, idp); !ok || tp != reflect.TypeFor[*u.P8]() {
				out = append(out, fmt.Sprintf("ResourceType(ID of *P8) = %v, %v", tp, ok))
			}
			if rv := ecs.ResourceTypeID(w, reflect.TypeFor[u.P8]()); rv != idv {
				out = append(out, fmt.Sprintf("resource type P8: ResourceID[T] gives %v, ResourceTypeID(reflect type) gives %v", idv, rv))
			}
			return out
		}},
		Scenario{Name: "B9-300-rejected-queries-while-64-are-open", Props: []string{"C07", "C13"}, Run: func() []string {
			// a rejected 65th query leaves the lock bits alone, however often it is tried
			var out []string
			w := ecs.NewWorld(4)
			m := ecs.NewMap1[u.P8](w)
			m.NewEntity(&u.P8{V: 1})
			f := ecs.NewFilter1[u.P8](w)
			uf := ecs.NewUnsafeFilter(w, ecs.ComponentID[u.P8](w))
			qs := make([]ecs.Query1[u.P8], 64)
			for i := range qs {
				qs[i] = f.Query()
			}
			accepted := 0
			for k := 0; k < 300; k++ {
				if k%2 == 0 {
					if try(func() { q := f.Query(); q.Close() }) == nil {
						accepted++
					}
				} else if try(func() { q := uf.Query(); q.Close() }) == nil {
					accepted++
				}
			}
			if accepted > 0 {
				out = append(out, fmt.Sprintf("%d of 300 queries were accepted although 64 queries were open", accepted))
			}
			for i := range qs {
				if !w.IsLocked() {
					out = append(out, fmt.Sprintf("world unlocked although %d queries are still open", 64-i))
					break
				}
				if p := try(func() {
					n := 0
					for qs[i].Next() {
						n++
					}
					if n != 1 {
						out = append(out, fmt.Sprintf("open query %d visits %d entities, want 1", i, n))
					}
				}); p != nil {
					out = append(out, fmt.Sprintf("finishing open query %d panicked: %v", i, p))
					break
				}
			}
			if w.IsLocked() {
				out = append(out, "world still locked after all queries finished")
				return out
			}
			// the pool works as before: 64 at once, the 65th is rejected
			for round := 0; round < 2; round++ {
				for i := range qs {
					qs[i] = f.Query()
				}
				if try(func() { f.Query() }) == nil {
					out = append(out, "a 65th query is accepted after the episode")
				}
				for i := range qs {
					if p := try(func() { qs[(i*7)%64].Close() }); p != nil {
						out = append(out, fmt.Sprintf("closing a query after the episode panicked: %v", p))
						return out
					}
				}
				if w.IsLocked() {
					out = append(out, "world locked after closing all queries")
				}
			}
			return out
		}},
	)
}

func init() {
	Scenarios = append(Scenarios, Scenario{Name: "G1-finished-queries-do-not-keep-column-memory-alive", Props: []string{"C11"}, Run: func() []string {
		// For every typed tuple with a pointer-bearing component: 8 entities in a table of capacity 8, a query iterated to
		// the end (and one closed early) that stays reachable, then the table grows (its old arrays are abandoned) and all
		// entities are removed. Every pointee must become collectable although the finished query objects are still
		// referenced - they hand out nothing any more and must not pin the abandoned arrays.
		var out []string
		saved := u.BoxHook
		defer func() { u.BoxHook = saved }()
		var keep []typed.TQuery
		for t := range typed.Tuples {
			tp := &typed.Tuples[t]
			hasPtr := false
			for _, c := range tp.Comps {
				if u.Types[c].HasPtr {
					hasPtr = true
				}
			}
			if tp.NewFilter == nil || !hasPtr {
				continue
			}
			var alloc, final atomic.Int64
			u.BoxHook = func(b *u.Box) {
				alloc.Add(1)
				runtime.SetFinalizer(b, func(*u.Box) { final.Add(1) })
			}
			w := ecs.NewWorld(8, 8)
			tm := tp.NewMap(w, false)
			var rel []ecs.Relation
			for j, c := range tp.Comps {
				if u.Types[c].IsRel {
					rel = append(rel, ecs.RelIdx(j, ecs.Entity{}))
				}
			}
			vals := make([]int64, len(tp.Comps))
			var es []ecs.Entity
			for i := 0; i < 8; i++ {
				for j := range vals {
					vals[j] = int64(1000*(i+1) + j)
				}
				es = append(es, tm.NewEntity(vals, rel))
			}
			f := tp.NewFilter(w, false)
			q1 := f.Query(nil)
			for q1.Next() {
			}
			q2 := f.Query(nil)
			q2.Next()
			q2.Close()
			keep = append(keep, q1, q2)
			for i := 0; i < 9; i++ { // grows the table: the arrays the queries have seen are abandoned
				for j := range vals {
					vals[j] = int64(100000*(i+1) + j)
				}
				es = append(es, tm.NewEntity(vals, rel))
			}
			for _, e := range es {
				w.RemoveEntity(e)
			}
			u.BoxHook = nil
			n := alloc.Load()
			for round := 0; round < 100 && final.Load() < n; round++ {
				runtime.GC()
				runtime.Gosched()
			}
			if got := final.Load(); got < n {
				out = append(out, fmt.Sprintf("tuple %d %v (Query%d): %d of %d pointees are still reachable after all entities were removed, while two finished queries of the filter are referenced", t, tupleNames(tp.Comps), len(tp.Comps), n-got, n))
			}
			runtime.KeepAlive(w)
		}
		runtime.KeepAlive(keep)
		return out
	}})
}

func tupleNames(cs []int) []string {
	var r []string
	for _, c := range cs {
		r = append(r, u.Types[c].Name)
	}
	return r
}

func init() {
	Scenarios = append(Scenarios, Scenario{Name: "S3-dump-of-a-world-without-entities-leaves-it-unlocked", Props: []string{"C07", "C17"}, Run: func() []string {
		// DumpEntities iterates a query of its own: whatever the world holds, it is unlocked again afterwards
		var out []string
		check := func(w *ecs.World, what string) {
			var d ecs.EntityDump
			if p := try(func() { d = w.Unsafe().DumpEntities() }); p != nil {
				out = append(out, fmt.Sprintf("%s: DumpEntities panicked: %v", what, p))
				return
			}
			if w.IsLocked() || w.Stats().Locked {
				out = append(out, fmt.Sprintf("%s: the world is left locked by DumpEntities (%d alive entities in the dump)", what, len(d.Alive)))
			}
			if p := try(func() { w.RemoveEntity(w.NewEntity()) }); p != nil {
				out = append(out, fmt.Sprintf("%s: a structural operation after DumpEntities panicked: %v", what, p))
			}
		}
		w := ecs.NewWorld(4)
		check(w, "fresh world")
		e := w.NewEntity()
		check(w, "world with one entity")
		w.RemoveEntity(e)
		check(w, "world whose entities were all removed")
		w.NewEntity()
		w.Reset()
		for i := 0; i < 70 && len(out) == 0; i++ {
			check(w, fmt.Sprintf("reset world, dump %d", i+1))
		}
		return out
	}})
}

func init() {
	Scenarios = append(Scenarios, Scenario{Name: "B10-fresh-filters-after-every-archetype-creation", Props: []string{"C03", "C13"}, Run: func() []string {
		// One typed tuple per filter arity has two entities. Then archetypes are created one component at a time (the
		// registry's internal version counter passes through every value up to 256 and beyond), and after each step a
		// *fresh* filter of every arity must find its two entities - whatever a filter caches on first use must not depend
		// on how many archetypes were created before it.
		var out []string
		w := ecs.NewWorld(4)
		type pick struct {
			t    int
			want int
		}
		var picks []pick
		seen := map[int]bool{}
		for t := range typed.Tuples {
			tp := &typed.Tuples[t]
			if tp.NewFilter == nil || seen[len(tp.Comps)] {
				continue
			}
			seen[len(tp.Comps)] = true
			tm := tp.NewMap(w, false)
			var rel []ecs.Relation
			for j, c := range tp.Comps {
				if u.Types[c].IsRel {
					rel = append(rel, ecs.RelIdx(j, ecs.Entity{}))
				}
			}
			vals := make([]int64, len(tp.Comps))
			tm.NewEntity(vals, rel)
			tm.NewEntity(vals, rel)
			picks = append(picks, pick{t: t})
		}
		for i := range picks {
			q := typed.Tuples[picks[i].t].NewFilter(w, false).Query(nil)
			picks[i].want = q.Count() // at least 2; tuples may overlap
			q.Close()
			if picks[i].want < 2 {
				out = append(out, fmt.Sprintf("tuple %d: %d entities found at the start, at least 2 expected", picks[i].t, picks[i].want))
			}
		}
		for k := 0; k < 300 && len(out) == 0; k++ {
			var id ecs.ID
			if try(func() { id = ecs.TypeID(w, u.Filler(4000+k)) }) != nil {
				break // registry full (64 types in the tiny build)
			}
			w.Unsafe().NewEntity(id)
			for _, p := range picks {
				f := typed.Tuples[p.t].NewFilter(w, false)
				q := f.Query(nil)
				n, it := q.Count(), 0
				for q.Next() {
					it++
				}
				if n != p.want || it != p.want {
					out = append(out, fmt.Sprintf("after %d further single-component archetypes a fresh Filter%d counts %d and visits %d entities, want %d", k+1, len(typed.Tuples[p.t].Comps), n, it, p.want))
					break
				}
			}
		}
		return out
	}})
}

func init() {
	Scenarios = append(Scenarios, Scenario{Name: "S4-order-of-queries-and-batches-naming-two-of-three-relation-targets", Props: []string{"C12", "C03", "C06"}, Run: func() []string {
		// An archetype with three relation components; many of its tables share the targets of the first two relations
		// and differ in the third. Whatever names one, two or three targets (typed and unsafe queries, registered filters,
		// Count, batch calls with their callbacks) must enumerate exactly the entities the scenario expects, and in the same
		// order in every fresh world built by the same calls (which order that is, is the library's business).
		var out []string
		const worlds, tablesPerPair, perTable = 6, 9, 3
		var first []string
		for wi := 0; wi < worlds && len(out) == 0; wi++ {
			w := ecs.NewWorld(4)
			tm := ecs.NewMap1[u.P8](w)
			var a, b [2]ecs.Entity
			var c [tablesPerPair]ecs.Entity
			for i := range a {
				a[i], b[i] = tm.NewEntity(&u.P8{}), tm.NewEntity(&u.P8{})
			}
			for i := range c {
				c[i] = tm.NewEntity(&u.P8{})
			}
			m := ecs.NewMap4[u.R0, u.R1, u.R2, u.P4](w)
			// expected order per (a,b) pair: creation order of the tables, then of the rows
			want := map[[2]int][]ecs.Entity{}
			wantA := map[int][]ecs.Entity{}
			var all []ecs.Entity
			// creation order deliberately not sorted by target id
			for _, k := range []int{4, 0, 7, 2, 8, 1, 6, 3, 5} {
				for ai := range a {
					for bi := range b {
						for n := 0; n < perTable; n++ {
							e := m.NewEntity(&u.R0{}, &u.R1{V: int64(k)}, &u.R2{V: int32(n)}, &u.P4{},
								ecs.Rel[u.R0](a[ai]), ecs.Rel[u.R1](b[bi]), ecs.Rel[u.R2](c[k]))
							want[[2]int{ai, bi}] = append(want[[2]int{ai, bi}], e)
							wantA[ai] = append(wantA[ai], e)
							all = append(all, e)
						}
					}
				}
			}
			// C03: the entities are exactly the expected ones (as a set). C12: the order is whatever the library chooses, but
			// the same in every world built by the same calls - every enumeration goes into the world's trace.
			var trace []string
			same := func(what string, got, exp []ecs.Entity) {
				trace = append(trace, what+" "+fmt.Sprint(got))
				if len(got) != len(exp) {
					out = append(out, fmt.Sprintf("world %d: %s yields %d entities, expected %d", wi, what, len(got), len(exp)))
					return
				}
				in := make(map[ecs.Entity]int, len(exp))
				for _, e := range exp {
					in[e]++
				}
				for i, e := range got {
					if in[e] != 1 {
						out = append(out, fmt.Sprintf("world %d: %s yields %v at position %d, which is not expected or was seen before", wi, what, e, i))
						return
					}
					in[e]--
				}
			}
			f3 := ecs.NewFilter3[u.R0, u.R1, u.R2](w)
			f4c := ecs.NewFilter4[u.R0, u.R1, u.R2, u.P4](w).Register()
			uf := ecs.NewUnsafeFilter(w, ecs.ComponentID[u.R0](w), ecs.ComponentID[u.R1](w), ecs.ComponentID[u.R2](w))
			for rep := 0; rep < 4 && len(out) == 0; rep++ {
				for ai := range a {
					for bi := range b {
						exp := want[[2]int{ai, bi}]
						ra, rb := ecs.Rel[u.R0](a[ai]), ecs.Rel[u.R1](b[bi])
						var got []ecs.Entity
						q := f3.Query(ra, rb)
						if n := q.Count(); n != len(exp) {
							out = append(out, fmt.Sprintf("world %d: Count of Filter3 with two targets = %d, expected %d", wi, n, len(exp)))
						}
						for q.Next() {
							got = append(got, q.Entity())
						}
						same("Filter3.Query(R0=a, R1=b)", got, exp)
						got = got[:0]
						q = f3.Query(rb, ra)
						for q.Next() {
							got = append(got, q.Entity())
						}
						same("Filter3.Query(R1=b, R0=a)", got, exp)
						got = got[:0]
						q4 := f4c.Query(ra, rb)
						for q4.Next() {
							got = append(got, q4.Entity())
						}
						same("registered Filter4.Query(R0=a, R1=b)", got, exp)
						got = got[:0]
						uq := uf.Query(ra, rb)
						for uq.Next() {
							got = append(got, uq.Entity())
						}
						same("UnsafeFilter.Query(R0=a, R1=b)", got, exp)
						for i := 0; i < len(exp) && len(got) == len(exp); i++ {
							uq = uf.Query(ra, rb)
							e := uq.EntityAt(i)
							uq.Close()
							if e != got[i] {
								out = append(out, fmt.Sprintf("world %d: EntityAt(%d) with two targets = %v, the query over the same filter had %v there", wi, i, e, got[i]))
								break
							}
						}
						// a batch call naming the two targets visits the same entities in the same order
						got = got[:0]
						pm := ecs.NewMap1[u.P2](w)
						pm.AddBatchFn(f3.Batch(ra, rb), func(e ecs.Entity, p *u.P2) { got = append(got, e) })
						same("AddBatchFn over Filter3.Batch(R0=a, R1=b)", got, exp)
						got = got[:0]
						pm.RemoveBatch(f3.Batch(ra, rb), func(e ecs.Entity) { got = append(got, e) })
						same("RemoveBatch over Filter3.Batch(R0=a, R1=b)", got, exp)
						// three targets: one table
						for k := range c {
							var exp3 []ecs.Entity
							for _, e := range exp {
								if m.GetRelation(e, 2) == c[k] {
									exp3 = append(exp3, e)
								}
							}
							got = got[:0]
							q = f3.Query(ecs.Rel[u.R2](c[k]), rb, ra)
							for q.Next() {
								got = append(got, q.Entity())
							}
							same("Filter3.Query(R2=c, R1=b, R0=a)", got, exp3)
						}
					}
					var got []ecs.Entity
					q := f3.Query(ecs.Rel[u.R0](a[ai]))
					for q.Next() {
						got = append(got, q.Entity())
					}
					same("Filter3.Query(R0=a)", got, wantA[ai])
				}
				var got []ecs.Entity
				q := f3.Query()
				for q.Next() {
					got = append(got, q.Entity())
				}
				same("Filter3.Query()", got, all)
			}
			if len(out) == 0 {
				// structural batch calls naming two targets, last: they change the tables
				var got []ecs.Entity
				ra, rb := ecs.Rel[u.R0](a[0]), ecs.Rel[u.R1](b[1])
				m.SetRelationsBatch(f3.Batch(ra, rb), func(e ecs.Entity) { got = append(got, e) }, ecs.Rel[u.R2](c[0]))
				var moved []ecs.Entity
				for _, e := range want[[2]int{0, 1}] {
					if m.GetRelation(e, 2) != c[0] {
						out = append(out, fmt.Sprintf("world %d: %v is not moved to the new R2 target by SetRelationsBatch over two named targets", wi, e))
						break
					}
				}
				moved = append(moved, want[[2]int{0, 1}]...)
				trace = append(trace, "SetRelationsBatch callbacks "+fmt.Sprint(got))
				got = got[:0]
				q := f3.Query(ra, rb, ecs.Rel[u.R2](c[0]))
				for q.Next() {
					got = append(got, q.Entity())
				}
				same("Filter3.Query(R0=a, R1=b, R2=c0) after SetRelationsBatch", got, moved)
				got = got[:0]
				ra, rb = ecs.Rel[u.R0](a[1]), ecs.Rel[u.R1](b[0])
				w.RemoveEntities(f3.Batch(ra, rb), func(e ecs.Entity) { got = append(got, e) })
				same("RemoveEntities over Filter3.Batch(R0=a, R1=b)", got, want[[2]int{1, 0}])
				q = f3.Query(ra, rb)
				if n := q.Count(); n != 0 {
					out = append(out, fmt.Sprintf("world %d: %d entities left after RemoveEntities over two named targets", wi, n))
				}
				q.Close()
				got = got[:0]
				q = f3.Query()
				for q.Next() {
					got = append(got, q.Entity())
				}
				same("Filter3.Query() after the structural batches", got, got)
				if len(got) != len(all)-len(want[[2]int{1, 0}]) {
					out = append(out, fmt.Sprintf("world %d: %d entities after the structural batches, expected %d", wi, len(got), len(all)-len(want[[2]int{1, 0}])))
				}
			}
			if wi == 0 {
				first = trace
			} else if len(out) == 0 {
				for i := range first {
					if i >= len(trace) || first[i] != trace[i] {
						out = append(out, fmt.Sprintf("world %d, built by the same calls as world 0, enumerates differently at step %d: %.300s / world 0: %.300s", wi, i, trace[min(i, len(trace)-1)], first[i]))
						break
					}
				}
			}
		}
		return out
	}})
}

func init() {
	Scenarios = append(Scenarios, Scenario{Name: "S5-relation-observers-of-a-batch-over-tables-that-change-different-relations", Props: []string{"C08", "C09"}, Run: func() []string {
		// One SetRelationsBatch names both relation components of a tuple; the source tables differ in which of the two
		// targets actually changes (both, only the first, only the second, none). An observer For(Rx) of OnAddRelations /
		// OnRemoveRelations is due exactly for the entities whose Rx target changes - as the per-entity call in a twin world
		// built by the same calls reports it - whatever the order of the tables in the batch.
		var out []string
		type key struct {
			obs string
			e   ecs.Entity
		}
		for variant := 0; variant < 4 && len(out) == 0; variant++ {
			build := func() (*ecs.World, *ecs.Map3[u.R0, u.R1, u.P4], [2]ecs.Entity, [2]ecs.Entity, map[key]int) {
				w := ecs.NewWorld(4)
				tm := ecs.NewMap1[u.P8](w)
				a := [2]ecs.Entity{tm.NewEntity(&u.P8{}), tm.NewEntity(&u.P8{})}
				b := [2]ecs.Entity{tm.NewEntity(&u.P8{}), tm.NewEntity(&u.P8{})}
				m := ecs.NewMap3[u.R0, u.R1, u.P4](w)
				// table creation order varies: the batch visits tables in creation order
				orders := [][][2]int{
					{{0, 0}, {1, 0}, {0, 1}, {1, 1}},
					{{1, 0}, {0, 0}, {1, 1}, {0, 1}},
					{{0, 1}, {0, 0}, {1, 0}, {1, 1}},
					{{1, 1}, {0, 1}, {1, 0}, {0, 0}},
				}
				for _, ab := range orders[variant] {
					for n := 0; n < 3; n++ {
						m.NewEntity(&u.R0{}, &u.R1{V: int64(n)}, &u.P4{}, ecs.Rel[u.R0](a[ab[0]]), ecs.Rel[u.R1](b[ab[1]]))
					}
				}
				got := map[key]int{}
				reg := func(name string, o *ecs.Observer) {
					o.Do(func(e ecs.Entity) { got[key{name, e}]++ }).Register(w)
				}
				r0, r1 := ecs.C[u.R0](), ecs.C[u.R1]()
				reg("add", ecs.Observe(ecs.OnAddRelations))
				reg("add/R0", ecs.Observe(ecs.OnAddRelations).For(r0))
				reg("add/R1", ecs.Observe(ecs.OnAddRelations).For(r1))
				reg("add/R0,R1", ecs.Observe(ecs.OnAddRelations).For(r0).For(r1))
				reg("rem", ecs.Observe(ecs.OnRemoveRelations))
				reg("rem/R0", ecs.Observe(ecs.OnRemoveRelations).For(r0))
				reg("rem/R1", ecs.Observe(ecs.OnRemoveRelations).For(r1))
				reg("rem/R0,R1", ecs.Observe(ecs.OnRemoveRelations).For(r0).For(r1))
				return w, m, a, b, got
			}
			w1, m1, a1, b1, got1 := build()
			w2, m2, a2, b2, got2 := build()
			// what is due, from the targets before the call
			want := map[key]int{}
			f := ecs.NewFilter3[u.R0, u.R1, u.P4](w1)
			var list []ecs.Entity
			q := f.Query()
			for q.Next() {
				e := q.Entity()
				list = append(list, e)
			}
			for _, e := range list {
				c0, c1 := m1.GetRelation(e, 0) != a1[1], m1.GetRelation(e, 1) != b1[1]
				if c0 || c1 {
					want[key{"add", e}], want[key{"rem", e}] = 1, 1
				}
				if c0 {
					want[key{"add/R0", e}], want[key{"rem/R0", e}] = 1, 1
				}
				if c1 {
					want[key{"add/R1", e}], want[key{"rem/R1", e}] = 1, 1
				}
				if c0 && c1 {
					want[key{"add/R0,R1", e}], want[key{"rem/R0,R1", e}] = 1, 1
				}
			}
			m1.SetRelationsBatch(f.Batch(), nil, ecs.Rel[u.R0](a1[1]), ecs.Rel[u.R1](b1[1]))
			for _, e := range list {
				if !w2.Alive(e) {
					out = append(out, fmt.Sprintf("variant %d: the twin world does not know %v", variant, e))
					return out
				}
				m2.SetRelations(e, ecs.Rel[u.R0](a2[1]), ecs.Rel[u.R1](b2[1]))
			}
			// "For(R0).For(R1)": documented semantics are the library's; the twin decides it, the explicit expectation is
			// only used for the single-component and the unrestricted observers
			for _, e := range list {
				for _, o := range []string{"add", "add/R0", "add/R1", "add/R0,R1", "rem", "rem/R0", "rem/R1", "rem/R0,R1"} {
					k := key{o, e}
					if got1[k] != got2[k] {
						out = append(out, fmt.Sprintf("variant %d: observer %s ran %d time(s) for %v in SetRelationsBatch, %d time(s) in the per-entity SetRelations of a twin world", variant, o, got1[k], e, got2[k]))
					}
					if o != "add/R0,R1" && o != "rem/R0,R1" && got1[k] != want[k] {
						out = append(out, fmt.Sprintf("variant %d: observer %s ran %d time(s) for %v in SetRelationsBatch, due %d time(s) (R0 changes: %v, R1 changes: %v)", variant, o, got1[k], e, want[k], want[key{"add/R0", e}] == 1, want[key{"add/R1", e}] == 1))
					}
				}
			}
			for k, n := range got1 {
				if !w1.Alive(k.e) || n > 1 {
					out = append(out, fmt.Sprintf("variant %d: observer %s ran %d time(s) for %v", variant, k.obs, n, k.e))
				}
			}
			if len(out) > 6 {
				out = out[:6]
			}
		}
		return out
	}})
}

func init() {
	Scenarios = append(Scenarios, Scenario{Name: "S6-typed-observer-of-every-arity-moved-between-worlds", Props: []string{"C09", "C08"}, Run: func() []string {
		// One typed observer object per arity serves world 1, is unregistered, serves world 2 (whose component IDs, tables and
		// rows differ), and then world 1 again. In every callback the component pointers are those MapN.Get returns for the
		// reported entity in the world the operation runs in, and they read the values just written.
		var out []string
		seen := map[int]bool{}
		for t := range typed.Tuples {
			tp := &typed.Tuples[t]
			if tp.NewObs == nil || tp.NewMap == nil || seen[len(tp.Comps)] {
				continue
			}
			seen[len(tp.Comps)] = true
			for _, viaNew := range []bool{false, true} {
				w1, w2 := ecs.NewWorld(4), ecs.NewWorld(4)
				// world 2: other component IDs, an older archetype and rows in front
				ecs.ComponentID[u.LateObs2](w2)
				ecs.NewMap1[u.P8](w2).NewBatch(7, &u.P8{V: 5})
				worlds := []*ecs.World{w1, w2}
				maps := []typed.TMap{tp.NewMap(w1, false), tp.NewMap(w2, false)}
				var rel []ecs.Relation
				for j, c := range tp.Comps {
					if u.Types[c].IsRel {
						rel = append(rel, ecs.RelIdx(j, ecs.Entity{}))
					}
				}
				vals := make([]int64, len(tp.Comps))
				for i := 0; i < 3; i++ {
					maps[1].NewEntity(vals, rel)
				}
				cur, calls, expect := 0, 0, int64(0)
				obs := tp.NewObs(ecs.OnCreateEntity, viaNew)
				obs.Do(func(e ecs.Entity, p typed.Ptrs) {
					calls++
					if !worlds[cur].Alive(e) {
						out = append(out, fmt.Sprintf("Observer%d: reported entity %v is not alive in the world of the operation (world %d)", len(tp.Comps), e, cur+1))
						return
					}
					g := maps[cur].Get(e)
					for j := range g {
						if p[j] != g[j] {
							out = append(out, fmt.Sprintf("Observer%d in world %d: component %d of %v handed to the callback at %p, Map%d.Get has it at %p", len(tp.Comps), cur+1, j, e, p[j], len(tp.Comps), g[j]))
							return
						}
						ti := &u.Types[tp.Comps[j]]
						if v, ok := ti.Dec(p[j]); ok && !ti.ZeroSize && v != ti.Canon(expect) {
							out = append(out, fmt.Sprintf("Observer%d in world %d: component %d of %v reads %d in the callback, %d was written", len(tp.Comps), cur+1, j, e, v, ti.Canon(expect)))
							return
						}
					}
				})
				want := 0
				for step, wi := range []int{0, 1, 0, 1, 1} {
					cur, expect = wi, int64(step+1)
					obs.Register(worlds[wi])
					for j := range vals {
						vals[j] = expect
					}
					maps[wi].NewEntity(vals, rel)
					want++
					obs.Unregister(worlds[wi])
					maps[wi].NewEntity(vals, rel) // unregistered: no call
					if calls != want && len(out) == 0 {
						out = append(out, fmt.Sprintf("Observer%d: %d call(s) after step %d (world %d), due %d", len(tp.Comps), calls, step, wi+1, want))
					}
				}
				if len(out) > 4 {
					return out[:4]
				}
			}
		}
		if len(seen) == 0 {
			out = append(out, "no typed observer tuple available")
		}
		return out
	}})
}
