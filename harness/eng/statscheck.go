package eng

import (
	"fmt"
	"sort"
	"strings"

	"github.com/mlange-42/ark/ecs/stats"
	u "verifharness/universe"
)

// checkStats applies the C19 rules to World.Stats().
func (d *Drv) checkStats() {
	d.Stat.StatsCalls++
	s := d.W.Stats()
	m := d.M
	if s.Entities.Used != m.NAlive {
		d.viol("C19", "stats-used", "Stats().Entities.Used=%d, model alive %d", s.Entities.Used, m.NAlive)
	}
	d.statsIntrinsic(s, "")
	nf := 0
	for i := range m.Filters {
		if m.Filters[i].Registered {
			nf++
		}
	}
	if d.transient != nil {
		nf++
	}
	if s.CachedFilters != nf {
		d.viol("C19", "stats-filters", "CachedFilters=%d, model %d", s.CachedFilters, nf)
	}
	no := 0
	for i := range m.Obs {
		if m.Obs[i].Registered {
			no++
		}
	}
	if s.Observers != no {
		d.viol("C19", "stats-observers", "Observers=%d, model %d", s.Observers, no)
	}
	if s.Locked != (m.Locks > 0) {
		d.viol("C19", "stats-locked", "Locked=%v with %d open queries", s.Locked, m.Locks)
	}
	want := d.Cfg.Fillers + u.N + m.Late
	if len(s.ComponentTypes) != want || len(s.ComponentTypeNames) != want {
		d.viol("C19", "stats-components", "ComponentTypes=%d names=%d, registered %d", len(s.ComponentTypes), len(s.ComponentTypeNames), want)
	}
}

// statsInCallback applies the rules that need no model to a Stats() call made from inside a callback of a running
// operation (C19 quantifies over all points at which Stats is called; every fourth callback invocation is sampled).
func (d *Drv) statsInCallback(where string) {
	if !d.StatsInCb {
		return
	}
	d.statsCbCtr++
	if d.statsCbCtr%4 != 0 {
		return
	}
	d.Stat.StatsInCallback++
	s := d.W.Stats()
	d.statsIntrinsic(s, " (Stats() called inside "+where+")")
	if s.Locked != d.W.IsLocked() {
		d.viol("C19", "stats-locked", "Locked=%v, IsLocked()=%v inside %s", s.Locked, d.W.IsLocked(), where)
	}
}

// statsIntrinsic applies the C19 rules that relate the figures of one Stats() result to each other.
func (d *Drv) statsIntrinsic(s *stats.World, where string) {
	d.noteScale(s)
	viol := func(kind, f string, a ...any) { d.viol("C19", kind, f+where, a...) }
	if s.Entities.Total != s.Entities.Used+s.Entities.Recycled {
		viol("stats-total", "Total=%d != Used %d + Recycled %d", s.Entities.Total, s.Entities.Used, s.Entities.Recycled)
	}
	if s.Entities.Total > s.Entities.Capacity {
		viol("stats-capacity", "Total=%d > Capacity=%d", s.Entities.Total, s.Entities.Capacity)
	}
	sumA, sumT := 0, 0
	seen := map[string]int{}
	memA, memUsedA := 0, 0
	for i := range s.Archetypes {
		a := &s.Archetypes[i]
		ids := append([]uint8{}, a.ComponentIDs...)
		sort.Slice(ids, func(x, y int) bool { return ids[x] < ids[y] })
		key := fmt.Sprint(ids)
		if j, dup := seen[key]; dup {
			viol("stats-dup-archetype", "archetypes %d and %d have the same component set %s", j, i, key)
		}
		seen[key] = i
		sumA += a.Size
		memA += a.Memory
		memUsedA += a.MemoryUsed
		// memory per entity = entity (8 bytes) + component sizes
		per := 8
		nrel := 0
		for k, id := range a.ComponentIDs {
			if k < len(a.ComponentTypes) && a.ComponentTypes[k] != nil {
				per += int(a.ComponentTypes[k].Size())
				if a.ComponentTypeNames[k] != a.ComponentTypes[k].Name() {
					viol("stats-typenames", "archetype %d: type name %q for type %v", i, a.ComponentTypeNames[k], a.ComponentTypes[k])
				}
			}
			for c := 0; c < u.N; c++ {
				if d.ID[c].Index() == id && u.Types[c].IsRel {
					nrel++
				}
			}
		}
		if a.MemoryPerEntity != per {
			viol("stats-mem-per-entity", "archetype %d: MemoryPerEntity=%d, documented sum %d", i, a.MemoryPerEntity, per)
		}
		if a.NumRelations != nrel {
			viol("stats-numrelations", "archetype %d: NumRelations=%d, components contain %d relations", i, a.NumRelations, nrel)
		}
		tSize, tCap, tMem, tUsed := 0, 0, 0, 0
		for j := range a.Tables {
			t := &a.Tables[j]
			if t.Size > t.Capacity {
				viol("stats-table-size", "archetype %d table %d: Size=%d > Capacity=%d", i, j, t.Size, t.Capacity)
			}
			if t.Memory != t.Capacity*a.MemoryPerEntity {
				viol("stats-table-memory", "archetype %d table %d: Memory=%d != Capacity %d x %d", i, j, t.Memory, t.Capacity, a.MemoryPerEntity)
			}
			if t.MemoryUsed != t.Size*a.MemoryPerEntity {
				viol("stats-table-memory", "archetype %d table %d: MemoryUsed=%d != Size %d x %d", i, j, t.MemoryUsed, t.Size, a.MemoryPerEntity)
			}
			tSize += t.Size
			tCap += t.Capacity
			tMem += t.Memory
			tUsed += t.MemoryUsed
		}
		sumT += tSize
		if a.Size != tSize {
			viol("stats-arch-size", "archetype %d: Size=%d != sum of table sizes %d", i, a.Size, tSize)
		}
		if a.MemoryUsed != tUsed {
			viol("stats-arch-memused", "archetype %d: MemoryUsed=%d != sum of tables %d", i, a.MemoryUsed, tUsed)
		}
		if a.Memory != a.Capacity*a.MemoryPerEntity {
			viol("stats-arch-memory", "archetype %d: Memory=%d != Capacity %d x %d", i, a.Memory, a.Capacity, a.MemoryPerEntity)
		}
		if a.FreeTables == 0 {
			if a.Capacity != tCap || a.Memory != tMem {
				viol("stats-arch-sums", "archetype %d (no free tables): Capacity/Memory %d/%d != table sums %d/%d", i, a.Capacity, a.Memory, tCap, tMem)
			}
		} else if a.Capacity < tCap || a.Memory < tMem {
			viol("stats-arch-sums", "archetype %d: Capacity/Memory %d/%d below table sums %d/%d", i, a.Capacity, a.Memory, tCap, tMem)
		}
		if a.NumRelations == 0 && (len(a.Tables) != 1 || a.FreeTables != 0) {
			viol("stats-tables", "archetype %d without relations has %d tables and %d free tables", i, len(a.Tables), a.FreeTables)
		}
	}
	if sumA != s.Entities.Used || sumT != s.Entities.Used {
		viol("stats-sums", "sum of archetype sizes %d / table sizes %d, Entities.Used %d", sumA, sumT, s.Entities.Used)
	}
	// the world figures add entity bookkeeping (whose layout is not documented) to the archetype sums
	if s.MemoryUsed < memUsedA || s.MemoryUsed > s.Memory {
		viol("stats-world-memused", "World.MemoryUsed=%d, archetypes sum %d, World.Memory %d", s.MemoryUsed, memUsedA, s.Memory)
	}
	if s.Memory < memA {
		viol("stats-world-memory", "World.Memory=%d below the archetype sum %d", s.Memory, memA)
	}
}

// RenderStats renders Stats() canonically (for replay-twin and determinism comparison).
func RenderStats(s *stats.World) string {
	var b strings.Builder
	fmt.Fprintf(&b, "E%+v M%d/%d F%d O%d L%v C%v\n", s.Entities, s.Memory, s.MemoryUsed, s.CachedFilters, s.Observers, s.Locked, s.ComponentTypeNames)
	for i := range s.Archetypes {
		a := &s.Archetypes[i]
		fmt.Fprintf(&b, "A%d ids=%v names=%v size=%d cap=%d rel=%d mem=%d/%d per=%d free=%d T=%v\n", i, a.ComponentIDs, a.ComponentTypeNames, a.Size, a.Capacity, a.NumRelations, a.Memory, a.MemoryUsed, a.MemoryPerEntity, a.FreeTables, a.Tables)
	}
	return b.String()
}

// CheckShrinkBounds checks the capacity rule after an unbounded Shrink (C15).
func (d *Drv) CheckShrinkBounds() {
	s := d.W.Stats()
	capN, capR := 1024, 128
	switch len(d.Cfg.Caps) {
	case 1:
		capN, capR = d.Cfg.Caps[0], d.Cfg.Caps[0]
	case 2:
		capN, capR = d.Cfg.Caps[0], d.Cfg.Caps[1]
	}
	for i := range s.Archetypes {
		a := &s.Archetypes[i]
		init := capN
		if a.NumRelations > 0 {
			init = capR
		}
		for j := range a.Tables {
			t := &a.Tables[j]
			if t.Capacity < t.Size {
				d.viol("C15", "shrink-capacity", "after Shrink: archetype %d table %d capacity %d < size %d", i, j, t.Capacity, t.Size)
			}
			lim := init
			if p := nextPow2(t.Size); p > lim {
				lim = p
			}
			if t.Capacity > lim {
				d.viol("C15", "shrink-capacity", "after unbounded Shrink: archetype %d table %d capacity %d > max(initial %d, pow2(size %d))", i, j, t.Capacity, init, t.Size)
			}
		}
	}
}

func nextPow2(n int) int {
	p := 1
	for p < n {
		p <<= 1
	}
	return p
}

// noteScale records how large the world under test got (coverage counters).
func (d *Drv) noteScale(s *stats.World) {
	if n := int64(s.Entities.Used); n > d.Stat.MaxAlive {
		d.Stat.MaxAlive = n
	}
	nt := int64(0)
	for i := range s.Archetypes {
		a := &s.Archetypes[i]
		nt += int64(len(a.Tables) + a.FreeTables)
		for j := range a.Tables {
			if n := int64(a.Tables[j].Size); n > d.Stat.MaxTableSize {
				d.Stat.MaxTableSize = n
			}
		}
	}
	if nt > d.Stat.MaxTables {
		d.Stat.MaxTables = nt
	}
}

// ArchFigures is what Stats() says about one archetype, reduced to the figures a call that was rejected for its
// arguments cannot change: it leaves entities, components and relations alone (C10), so sizes stay; the library may
// have prepared an empty table (or an empty archetype) before it found the error, so capacities and table counts may
// grow - but a table cannot disappear.
type ArchFigures struct {
	Size, Used, Tables, Capacity, Memory int
	NonEmpty                             string
}

// ArchetypeFigures extracts the figures, keyed by the archetype's component IDs.
func ArchetypeFigures(s *stats.World) map[string]ArchFigures {
	out := map[string]ArchFigures{}
	for i := range s.Archetypes {
		a := &s.Archetypes[i]
		ids := append([]uint8{}, a.ComponentIDs...)
		sort.Slice(ids, func(x, y int) bool { return ids[x] < ids[y] })
		var ne []int
		for j := range a.Tables {
			if a.Tables[j].Size > 0 {
				ne = append(ne, a.Tables[j].Size)
			}
		}
		sort.Ints(ne)
		out[fmt.Sprint(ids)] = ArchFigures{Size: a.Size, Used: a.MemoryUsed, Tables: len(a.Tables) + a.FreeTables, Capacity: a.Capacity, Memory: a.Memory, NonEmpty: fmt.Sprint(ne)}
	}
	return out
}
