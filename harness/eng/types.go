// Package eng is the runtime-monitoring engine: a sequential reference model of an
// ECS world, an operation language (ops are data), a driver executing ops against a
// real *ecs.World through a chosen API path, and the monitors comparing the two.
package eng

import (
	"fmt"
	"math/bits"
	"strings"

	u "verifharness/universe"
)

// CSet is a set of universe component indices.
type CSet uint32

func SetOf(cs ...int) CSet {
	var s CSet
	for _, c := range cs {
		s |= 1 << uint(c)
	}
	return s
}
func (s CSet) Has(c int) bool         { return s&(1<<uint(c)) != 0 }
func (s CSet) With(c int) CSet        { return s | 1<<uint(c) }
func (s CSet) Minus(o CSet) CSet      { return s &^ o }
func (s CSet) Contains(o CSet) bool   { return s&o == o }
func (s CSet) Intersects(o CSet) bool { return s&o != 0 }
func (s CSet) Len() int               { return bits.OnesCount32(uint32(s)) }
func (s CSet) List() []int {
	var r []int
	for c := 0; c < u.N; c++ {
		if s.Has(c) {
			r = append(r, c)
		}
	}
	return r
}
func (s CSet) String() string {
	var b []string
	for _, c := range s.List() {
		b = append(b, u.Types[c].Name)
	}
	return "{" + strings.Join(b, ",") + "}"
}

// RelMask is the set of relation components of the universe.
var RelMask = SetOf(u.IR0, u.IR1, u.IR2)

// EID identifies an entity by issue order in the model; ZeroE is the zero entity.
type EID int32

const ZeroE EID = -1

// RelT is a relation target assignment.
type RelT struct {
	C int // relation component
	T EID // target
}

// MEnt is the model state of one entity.
type MEnt struct {
	Alive bool
	Mask  CSet
	Val   [u.N]int64
	Tgt   [u.N]EID
}

// FSpec describes a filter.
type FSpec struct {
	Kind      int   // FUnsafe, FZero (Filter0+With), FTyped (tuple + With)
	Tuple     int   // typed tuple index for FTyped
	With      []int // extra With comps (for FUnsafe: all required ids)
	Without   []int
	Exclusive bool
	Rels      []RelT // targets fixed in the filter (typed kinds only)
}

const (
	FUnsafe = iota
	FZero
	FTyped
)

// EvType mirrors ecs event types in model terms.
type EvType int

const (
	EvCreate EvType = iota
	EvRemoveEntity
	EvAdd
	EvRemove
	EvSet
	EvAddRel
	EvRemoveRel
	EvCustom0
	EvCustom1
	NEv
)

var evNames = []string{"OnCreateEntity", "OnRemoveEntity", "OnAddComponents", "OnRemoveComponents", "OnSetComponents", "OnAddRelations", "OnRemoveRelations", "Custom0", "Custom1"}

func (e EvType) String() string { return evNames[e] }

// IsBefore reports whether events of this type are emitted before the change.
func (e EvType) IsBefore() bool { return e == EvRemoveEntity || e == EvRemove || e == EvRemoveRel }

// ObsSpec describes an observer.
type ObsSpec struct {
	Ev        EvType
	Tuple     int   // typed tuple index or -1 for the generic Observer
	Comps     []int // For(...) comps (in addition to the tuple's)
	With      []int
	Without   []int
	Exclusive bool
	// Behaviour inside the callback
	Probe      bool // run the C09 probes
	UnregSelf  bool // unregister itself on first call
	UnregOther int  // observer slot to unregister on first call, or -1
	RegNext    int  // 1 + observer slot that gets a fresh wildcard observer of the same event type registered from inside the callback (first call); 0 = none
}

// AllComps returns observed components (tuple + For).
func (o *ObsSpec) AllComps() CSet {
	s := SetOf(o.Comps...)
	if o.Tuple >= 0 {
		s |= SetOf(TupleComps(o.Tuple)...)
	}
	return s
}

// MEvent is one expected event of an operation.
type MEvent struct {
	Ev         EvType
	E          EID
	Changed    CSet // components the event is about (added / removed / set / changed relations / event comps)
	ChangedMax CSet // upper bound where documentation is silent (SetRelations to the same target); == Changed otherwise
	Ctx        CSet // entity composition that With/Without/Exclusive are matched against
	Exists     bool // false: event only "may" exist (not used for MUST)
}

// Kind is an operation kind.
type Kind int

const (
	KNewEntity Kind = iota
	KNewBatch
	KAdd
	KRemove
	KExchange
	KSet   // Map.Set / MapN.Set (emits OnSetComponents)
	KWrite // write through a pointer obtained by Get
	KSetRel
	KCopy
	KRemoveEntity
	KAddBatch
	KRemoveBatch
	KExchangeBatch
	KSetRelBatch
	KRemoveEntities
	KReset
	KShrink
	KRegFilter
	KUnregFilter
	KRegObs
	KUnregObs
	KAddRes
	KRemoveRes
	KOpenQuery
	KStepQuery
	KCloseQuery
	KEmit
	KMisuse
	KDumpLoad
	KStats
	KRegType // register one more (filler) component type: crosses mask-word boundaries while wrappers exist
	NKinds
)

var kindNames = []string{"NewEntity", "NewBatch", "Add", "Remove", "Exchange", "Set", "Write", "SetRel", "Copy", "RemoveEntity",
	"AddBatch", "RemoveBatch", "ExchangeBatch", "SetRelBatch", "RemoveEntities", "Reset", "Shrink", "RegFilter", "UnregFilter",
	"RegObs", "UnregObs", "AddRes", "RemoveRes", "OpenQuery", "StepQuery", "CloseQuery", "Emit", "Misuse", "DumpLoad", "Stats", "RegType"}

func (k Kind) String() string { return kindNames[k] }

// API path selectors.
const (
	PUnsafe = iota // ecs.Unsafe / World
	PMap1          // ecs.Map[T]
	PTMap          // MapN via tuple
	PTExch         // ExchangeN via tuple
	NPaths
)

var pathNames = []string{"unsafe", "map", "mapN", "exchangeN"}

// Callback modes for creation / add operations.
const (
	FnValue = iota // value variant (NewEntity(&a,&b) ...)
	FnCall         // Fn variant with a callback that writes the values
	FnNil          // Fn variant with nil callback (zero-initialised)
)

// Op is one operation, as data.
type Op struct {
	K       Kind
	Path    int
	Fn      int
	E       EID
	Add     []int   // components to add / create with / set / write, in call order
	Vals    []int64 // values, parallel to Add
	Rem     []int
	Rels    []RelT
	N       int    // count for batch creation; duration selector for Shrink; step count for StepQuery
	Tuple   int    // typed tuple for PTMap / PTExch
	F       *FSpec // batch / query filter (ad hoc)
	SF      int    // standing filter slot, or -1
	Cached  bool   // use the registered instance of the standing filter
	QRels   []RelT // per-call relation targets
	Obs     *ObsSpec
	Slot    int // observer slot / query slot / resource comp / misuse id
	Ev      EvType
	Sub     int  // sub-selector (misuse kind, write path, shrink variant ...)
	BatchCb bool // pass a callback to batch ops that take func(Entity)
	Leak    *Op  // KOpenQuery executed inside the first batch-creation callback; the query stays open
}

func (o *Op) String() string {
	s := fmt.Sprintf("%s[%s fn=%d] e=%d add=%v vals=%v rem=%v rels=%v n=%d tuple=%d slot=%d sub=%d", o.K, pathNames[o.Path], o.Fn, o.E, names(o.Add), o.Vals, names(o.Rem), o.Rels, o.N, o.Tuple, o.Slot, o.Sub)
	if o.F != nil {
		s += fmt.Sprintf(" F=%s", o.F)
	}
	if o.SF >= 0 {
		s += fmt.Sprintf(" SF=%d cached=%v", o.SF, o.Cached)
	}
	if len(o.QRels) > 0 {
		s += fmt.Sprintf(" qrels=%v", o.QRels)
	}
	if o.Obs != nil {
		s += fmt.Sprintf(" obs=%+v", *o.Obs)
	}
	if o.K == KEmit {
		s += " ev=" + o.Ev.String()
	}
	if o.Leak != nil {
		s += " leak={" + o.Leak.String() + "}"
	}
	return s
}

func (f *FSpec) String() string {
	k := []string{"unsafe", "filter0", "typed"}[f.Kind]
	s := fmt.Sprintf("%s(", k)
	if f.Kind == FTyped {
		s += fmt.Sprintf("tuple%d%v ", f.Tuple, names(TupleComps(f.Tuple)))
	}
	s += fmt.Sprintf("with=%v without=%v excl=%v rels=%v)", names(f.With), names(f.Without), f.Exclusive, f.Rels)
	return s
}

func names(cs []int) []string {
	r := make([]string, len(cs))
	for i, c := range cs {
		r[i] = u.Types[c].Name
	}
	return r
}

// Required returns all required comps of the filter.
func (f *FSpec) Required() CSet {
	s := SetOf(f.With...)
	if f.Kind == FTyped {
		s |= SetOf(TupleComps(f.Tuple)...)
	}
	return s
}

// Matches reports whether an entity state matches the filter with extra per-call targets.
func (f *FSpec) Matches(e *MEnt, qrels []RelT) bool {
	req := f.Required()
	if !e.Mask.Contains(req) {
		return false
	}
	if f.Exclusive {
		if e.Mask != req {
			return false
		}
	} else if e.Mask.Intersects(SetOf(f.Without...)) {
		return false
	}
	for _, r := range f.Rels {
		if e.Tgt[r.C] != r.T {
			return false
		}
	}
	for _, r := range qrels {
		if e.Tgt[r.C] != r.T {
			return false
		}
	}
	return true
}
