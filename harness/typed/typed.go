// Package typed gives every generated arity of ark's typed API a uniform,
// type-erased interface (pointers as unsafe.Pointer in type-parameter order), so
// that one engine can drive and observe all of them.
package typed

import (
	"sync/atomic"
	"unsafe"

	"github.com/mlange-42/ark/ecs"
)

// Ptrs are component pointers in type-parameter order.
type Ptrs = []unsafe.Pointer

// Tuple is one instantiated component tuple.
type Tuple struct {
	Comps     []int
	NewMap    func(w *ecs.World, viaNew bool) TMap
	NewFilter func(w *ecs.World, viaNew bool) TFilter
	NewExch   func(w *ecs.World, viaNew bool) TExch
	NewObs    func(evt ecs.EventType, viaNew bool) TObs
}

// TMap wraps MapN.
type TMap interface {
	Arity() int
	Comps() []int
	NewEntity(vals []int64, rel []ecs.Relation) ecs.Entity
	NewEntityFn(fn func(Ptrs), rel []ecs.Relation) ecs.Entity
	NewBatch(n int, vals []int64, rel []ecs.Relation)
	NewBatchFn(n int, fn func(ecs.Entity, Ptrs), rel []ecs.Relation)
	Get(e ecs.Entity) Ptrs
	GetUnchecked(e ecs.Entity) Ptrs
	HasAll(e ecs.Entity) bool
	Add(e ecs.Entity, vals []int64, rel []ecs.Relation)
	AddFn(e ecs.Entity, fn func(Ptrs), rel []ecs.Relation)
	Set(e ecs.Entity, vals []int64)
	AddBatch(b ecs.Batch, vals []int64, rel []ecs.Relation)
	AddBatchFn(b ecs.Batch, fn func(ecs.Entity, Ptrs), rel []ecs.Relation)
	Remove(e ecs.Entity)
	RemoveBatch(b ecs.Batch, fn func(ecs.Entity))
	GetRelation(e ecs.Entity, i int) ecs.Entity
	GetRelationUnchecked(e ecs.Entity, i int) ecs.Entity
	SetRelations(e ecs.Entity, rel []ecs.Relation)
	SetRelationsBatch(b ecs.Batch, fn func(ecs.Entity), rel []ecs.Relation)
}

// TFilter wraps FilterN.
type TFilter interface {
	Arity() int
	Comps() []int
	With(c []ecs.Comp)
	Without(c []ecs.Comp)
	Exclusive()
	Relations(rel []ecs.Relation)
	Register()
	Unregister()
	Query(rel []ecs.Relation) TQuery
	Batch(rel []ecs.Relation) ecs.Batch
}

// TQuery wraps QueryN.
type TQuery interface {
	Next() bool
	Entity() ecs.Entity
	Get() Ptrs
	GetRelation(i int) ecs.Entity
	Count() int
	EntityAt(i int) ecs.Entity
	Close()
}

// TExch wraps ExchangeN.
type TExch interface {
	Arity() int
	Comps() []int
	Removes(c []ecs.Comp)
	Add(e ecs.Entity, vals []int64, rel []ecs.Relation)
	AddFn(e ecs.Entity, fn func(Ptrs), rel []ecs.Relation)
	AddBatch(b ecs.Batch, vals []int64, rel []ecs.Relation)
	AddBatchFn(b ecs.Batch, fn func(ecs.Entity, Ptrs), rel []ecs.Relation)
	Exchange(e ecs.Entity, vals []int64, rel []ecs.Relation)
	ExchangeFn(e ecs.Entity, fn func(Ptrs), rel []ecs.Relation)
	ExchangeBatch(b ecs.Batch, vals []int64, rel []ecs.Relation)
	ExchangeBatchFn(b ecs.Batch, fn func(ecs.Entity, Ptrs), rel []ecs.Relation)
	Remove(e ecs.Entity)
	RemoveBatch(b ecs.Batch, fn func(ecs.Entity))
}

// TObs wraps ObserverN.
type TObs interface {
	Arity() int
	Comps() []int
	For(c []ecs.Comp)
	With(c []ecs.Comp)
	Without(c []ecs.Comp)
	Exclusive()
	Do(fn func(ecs.Entity, Ptrs))
	Register(w *ecs.World)
	Unregister(w *ecs.World)
}

// Calls counts wrapper invocations per MethodNames index.
var Calls [1024]atomic.Int64

// Counting enables the call counters. It must be switched off (before any goroutine starts)
// in race-detector workloads: atomic counters would add happens-before edges between goroutines.
var Counting = true

func hit(i int) {
	if Counting {
		Calls[i].Add(1)
	}
}
