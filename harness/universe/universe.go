// Package universe defines the fixed set of component types compiled into the
// harness, with a codec "int64 <-> component value" for each. Every stored value
// is chosen unique by the workload, so a read identifies the write it observed.
package universe

import (
	"reflect"
	"sync/atomic"
	"unsafe"

	"github.com/mlange-42/ark/ecs"
)

// Cd is the codec constraint implemented by the pointer of every universe type.
type Cd[T any] interface {
	*T
	Enc(v int64)
	// Dec returns the encoded value and whether the component is internally consistent.
	Dec() (int64, bool)
}

// Box is the pointee of pointer-bearing components. Its fields are redundant so
// that a clobbered / freed pointee is detected.
type Box struct {
	V   int64
	Inv int64
	Pad [6]int64 // >= 64 bytes so finalizers are per-object (not tiny-allocated)
}

// NewBox allocates a consistent box.
func NewBox(v int64) *Box {
	b := &Box{V: v, Inv: ^v}
	for i := range b.Pad {
		b.Pad[i] = v + int64(i)
	}
	return b
}

// OK reports whether the box is internally consistent.
func (b *Box) OK() bool {
	if b.Inv != ^b.V {
		return false
	}
	for i := range b.Pad {
		if b.Pad[i] != b.V+int64(i) {
			return false
		}
	}
	return true
}

// BoxHook is called for every Box allocated by Enc, if set (C11 finalizer tracking).
var BoxHook func(b *Box)

func newBox(v int64) *Box {
	b := NewBox(v)
	if BoxHook != nil {
		BoxHook(b)
	}
	return b
}

// ---- plain, pointer-free types ------------------------------------------------

type P1 struct{ V uint8 }

func (c *P1) Enc(v int64)        { c.V = uint8(v) }
func (c *P1) Dec() (int64, bool) { return int64(c.V), true }

type P2 struct{ V uint16 }

func (c *P2) Enc(v int64)        { c.V = uint16(v) }
func (c *P2) Dec() (int64, bool) { return int64(c.V), true }

type B3 struct{ V [3]uint8 }

func (c *B3) Enc(v int64) { c.V = [3]uint8{uint8(v), uint8(v >> 8), uint8(v >> 16)} }
func (c *B3) Dec() (int64, bool) {
	return int64(c.V[0]) | int64(c.V[1])<<8 | int64(c.V[2])<<16, true
}

type P4 struct{ V int32 }

func (c *P4) Enc(v int64)        { c.V = int32(v) }
func (c *P4) Dec() (int64, bool) { return int64(c.V), true }

type P8 struct{ V int64 }

func (c *P8) Enc(v int64)        { c.V = v }
func (c *P8) Dec() (int64, bool) { return c.V, true }

type F8 struct{ V float64 }

func (c *F8) Enc(v int64)        { c.V = float64(int32(v)) }
func (c *F8) Dec() (int64, bool) { return int64(c.V), c.V == float64(int64(c.V)) }

// P12 is 12 bytes with 4-byte alignment: larger than a word, not a multiple of the word size.
type P12 struct{ A, B, C int32 }

func (c *P12) Enc(v int64) {
	a := int32(v)
	if a == 0 {
		*c = P12{}
		return
	}
	c.A, c.B, c.C = a, ^a, a+7
}
func (c *P12) Dec() (int64, bool) {
	if c.A == 0 {
		return 0, c.B == 0 && c.C == 0
	}
	return int64(c.A), c.B == ^c.A && c.C == c.A+7
}

type P16 struct{ A, B int64 }

func (c *P16) Enc(v int64) {
	if v == 0 {
		c.A, c.B = 0, 0
		return
	}
	c.A, c.B = v, ^v
}
func (c *P16) Dec() (int64, bool) {
	if c.A == 0 {
		return 0, c.B == 0
	}
	return c.A, c.B == ^c.A
}

type P24 struct{ A, B, C int64 }

func (c *P24) Enc(v int64) {
	if v == 0 {
		*c = P24{}
		return
	}
	c.A, c.B, c.C = v, v+1, v+2
}
func (c *P24) Dec() (int64, bool) {
	if c.A == 0 {
		return 0, c.B == 0 && c.C == 0
	}
	return c.A, c.B == c.A+1 && c.C == c.A+2
}

type P48 struct{ V [6]int64 }

func (c *P48) Enc(v int64) {
	if v == 0 {
		*c = P48{}
		return
	}
	for i := range c.V {
		c.V[i] = v + int64(i)*7
	}
}
func (c *P48) Dec() (int64, bool) {
	if c.V[0] == 0 {
		return 0, *c == P48{}
	}
	for i := range c.V {
		if c.V[i] != c.V[0]+int64(i)*7 {
			return c.V[0], false
		}
	}
	return c.V[0], true
}

// ---- zero-size types ------------------------------------------------------------

type Z0 struct{}

func (c *Z0) Enc(v int64)        {}
func (c *Z0) Dec() (int64, bool) { return 0, true }

type Z1 struct{}

func (c *Z1) Enc(v int64)        {}
func (c *Z1) Dec() (int64, bool) { return 0, true }

// ---- pointer-bearing types ------------------------------------------------------

// Ptr keeps its pointer in an unexported field (the only pointer of the type).
type Ptr struct{ p *Box }

func (c *Ptr) Enc(v int64) {
	if v == 0 {
		c.p = nil
		return
	}
	c.p = newBox(v)
}
func (c *Ptr) Dec() (int64, bool) {
	if c.p == nil {
		return 0, true
	}
	return c.p.V, c.p.OK() && c.p.V != 0
}

// Fn refers to its pointees through a func value (closure) and an unsafe.Pointer only.
type Fn struct {
	F func() *Box
	P unsafe.Pointer
}

func (c *Fn) Enc(v int64) {
	if v == 0 {
		*c = Fn{}
		return
	}
	b := newBox(v)
	c.F = func() *Box { return b }
	c.P = unsafe.Pointer(newBox(v))
}
func (c *Fn) Dec() (int64, bool) {
	if c.F == nil {
		return 0, c.P == nil
	}
	b, p := c.F(), (*Box)(c.P)
	if b == nil || p == nil {
		return -1, false
	}
	return b.V, b.OK() && p.OK() && p.V == b.V && b.V != 0
}

type Slc struct{ S []int64 }

func (c *Slc) Enc(v int64) {
	if v == 0 {
		c.S = nil
		return
	}
	c.S = []int64{v, ^v, v + 3}
}
func (c *Slc) Dec() (int64, bool) {
	if c.S == nil {
		return 0, true
	}
	if len(c.S) != 3 || cap(c.S) < 3 {
		return -1, false
	}
	return c.S[0], c.S[1] == ^c.S[0] && c.S[2] == c.S[0]+3 && c.S[0] != 0
}

type Str struct{ S string }

func (c *Str) Enc(v int64) {
	if v == 0 {
		c.S = ""
		return
	}
	// heap-allocated, unique string
	b := make([]byte, 0, 24)
	b = append(b, 'v')
	u := uint64(v)
	for i := 0; i < 16; i++ {
		b = append(b, "0123456789abcdef"[(u>>(60-4*uint(i)))&15])
	}
	c.S = string(b)
}
func (c *Str) Dec() (int64, bool) {
	if c.S == "" {
		return 0, true
	}
	if len(c.S) != 17 || c.S[0] != 'v' {
		return -1, false
	}
	var u uint64
	for i := 1; i < 17; i++ {
		ch := c.S[i]
		var d uint64
		switch {
		case ch >= '0' && ch <= '9':
			d = uint64(ch - '0')
		case ch >= 'a' && ch <= 'f':
			d = uint64(ch-'a') + 10
		default:
			return -1, false
		}
		u = u<<4 | d
	}
	return int64(u), u != 0
}

type Mp struct{ M map[int64]int64 }

func (c *Mp) Enc(v int64) {
	if v == 0 {
		c.M = nil
		return
	}
	c.M = map[int64]int64{1: v, 2: ^v}
}
func (c *Mp) Dec() (int64, bool) {
	if c.M == nil {
		return 0, true
	}
	if len(c.M) != 2 {
		return -1, false
	}
	return c.M[1], c.M[2] == ^c.M[1] && c.M[1] != 0
}

type Ifc struct{ V any }

func (c *Ifc) Enc(v int64) {
	if v == 0 {
		c.V = nil
		return
	}
	c.V = newBox(v)
}
func (c *Ifc) Dec() (int64, bool) {
	if c.V == nil {
		return 0, true
	}
	b, ok := c.V.(*Box)
	if !ok || b == nil {
		return -1, false
	}
	return b.V, b.OK() && b.V != 0
}

type Mix struct {
	A int64
	P *Box
	S string
	B int32
}

func (c *Mix) Enc(v int64) {
	if v == 0 {
		*c = Mix{}
		return
	}
	var s Str
	s.Enc(v)
	c.A, c.P, c.S, c.B = v, newBox(v), s.S, int32(v)
}
func (c *Mix) Dec() (int64, bool) {
	if c.A == 0 {
		return 0, c.P == nil && c.S == "" && c.B == 0
	}
	if c.P == nil {
		return c.A, false
	}
	s := Str{S: c.S}
	sv, sok := s.Dec()
	return c.A, sok && sv == c.A && c.P.OK() && c.P.V == c.A && c.B == int32(c.A)
}

// LateObs1/2 are never registered by the harness itself: directed scenarios use them as "new" component types.
type LateObs1 struct{ V int64 }
type LateObs2 struct{ V int64 }

// ---- relation types ---------------------------------------------------------------

// R0 is a marker-only (zero-size) relation.
type R0 struct{ ecs.RelationMarker }

func (c *R0) Enc(v int64)        {}
func (c *R0) Dec() (int64, bool) { return 0, true }

// R1 is a relation with plain payload.
type R1 struct {
	ecs.RelationMarker
	V int64
}

func (c *R1) Enc(v int64)        { c.V = v }
func (c *R1) Dec() (int64, bool) { return c.V, true }

// R2 is a relation with pointer payload.
type R2 struct {
	ecs.RelationMarker
	P *Box
	V int32
}

func (c *R2) Enc(v int64) {
	if v == 0 {
		c.P, c.V = nil, 0
		return
	}
	c.P, c.V = newBox(v), int32(v)
}
func (c *R2) Dec() (int64, bool) {
	if c.P == nil {
		return 0, c.V == 0
	}
	return c.P.V, c.P.OK() && c.V == int32(c.P.V) && c.P.V != 0
}

// ---- type table ---------------------------------------------------------------------

// Type describes one universe type.
type Type struct {
	Idx        int
	Name       string
	RT         reflect.Type
	Comp       ecs.Comp
	Size       uintptr
	IsRel      bool
	HasPtr     bool
	ZeroSize   bool
	Enc        func(p unsafe.Pointer, v int64)
	Dec        func(p unsafe.Pointer) (int64, bool)
	Canon      func(v int64) int64 // value read back after Enc(v)
	NewMap     func(w *ecs.World) MapT
	RegisterID func(w *ecs.World) ecs.ID
	Rel        func(target ecs.Entity) ecs.Relation // ecs.Rel[T](target)
	AddRes     func(w *ecs.World, v int64)
	GetRes     func(w *ecs.World) (int64, bool, bool) // value, consistent, present
	HasRes     func(w *ecs.World) bool
	RemoveRes  func(w *ecs.World)
	ResID      func(w *ecs.World) ecs.ResID
	NewValue   func(v int64) any // *T with Enc(v) applied
}

// MapT is the type-erased view of ecs.Map[T].
type MapT interface {
	NewEntity(v int64, target []ecs.Entity) ecs.Entity
	NewEntityFn(fn func(p unsafe.Pointer), target []ecs.Entity) ecs.Entity
	NewBatch(n int, v int64, target []ecs.Entity)
	NewBatchFn(n int, fn func(e ecs.Entity, p unsafe.Pointer), target []ecs.Entity)
	Get(e ecs.Entity) unsafe.Pointer
	GetUnchecked(e ecs.Entity) unsafe.Pointer
	Has(e ecs.Entity) bool
	HasUnchecked(e ecs.Entity) bool
	Add(e ecs.Entity, v int64, target []ecs.Entity)
	AddFn(e ecs.Entity, fn func(p unsafe.Pointer), target []ecs.Entity)
	Set(e ecs.Entity, v int64)
	AddBatch(b ecs.Batch, v int64, target []ecs.Entity)
	AddBatchFn(b ecs.Batch, fn func(e ecs.Entity, p unsafe.Pointer), target []ecs.Entity)
	Remove(e ecs.Entity)
	RemoveBatch(b ecs.Batch, fn func(e ecs.Entity))
	GetRelation(e ecs.Entity) ecs.Entity
	GetRelationUnchecked(e ecs.Entity) ecs.Entity
	SetRelation(e ecs.Entity, target ecs.Entity)
	SetRelationBatch(b ecs.Batch, target ecs.Entity, fn func(e ecs.Entity))
}

type mapT[T any, P Cd[T]] struct{ m *ecs.Map[T] }

func (m mapT[T, P]) NewEntity(v int64, target []ecs.Entity) ecs.Entity {
	var c T
	P(&c).Enc(v)
	return m.m.NewEntity(&c, target...)
}
func (m mapT[T, P]) NewEntityFn(fn func(p unsafe.Pointer), target []ecs.Entity) ecs.Entity {
	if fn == nil {
		return m.m.NewEntityFn(nil, target...)
	}
	return m.m.NewEntityFn(func(c *T) { fn(unsafe.Pointer(c)) }, target...)
}
func (m mapT[T, P]) NewBatch(n int, v int64, target []ecs.Entity) {
	var c T
	P(&c).Enc(v)
	m.m.NewBatch(n, &c, target...)
}
func (m mapT[T, P]) NewBatchFn(n int, fn func(e ecs.Entity, p unsafe.Pointer), target []ecs.Entity) {
	if fn == nil {
		m.m.NewBatchFn(n, nil, target...)
		return
	}
	m.m.NewBatchFn(n, func(e ecs.Entity, c *T) { fn(e, unsafe.Pointer(c)) }, target...)
}
func (m mapT[T, P]) Get(e ecs.Entity) unsafe.Pointer { return unsafe.Pointer(m.m.Get(e)) }
func (m mapT[T, P]) GetUnchecked(e ecs.Entity) unsafe.Pointer {
	return unsafe.Pointer(m.m.GetUnchecked(e))
}
func (m mapT[T, P]) Has(e ecs.Entity) bool          { return m.m.Has(e) }
func (m mapT[T, P]) HasUnchecked(e ecs.Entity) bool { return m.m.HasUnchecked(e) }
func (m mapT[T, P]) Add(e ecs.Entity, v int64, target []ecs.Entity) {
	var c T
	P(&c).Enc(v)
	m.m.Add(e, &c, target...)
}
func (m mapT[T, P]) AddFn(e ecs.Entity, fn func(p unsafe.Pointer), target []ecs.Entity) {
	if fn == nil {
		m.m.AddFn(e, nil, target...)
		return
	}
	m.m.AddFn(e, func(c *T) { fn(unsafe.Pointer(c)) }, target...)
}
func (m mapT[T, P]) Set(e ecs.Entity, v int64) {
	var c T
	P(&c).Enc(v)
	m.m.Set(e, &c)
}
func (m mapT[T, P]) AddBatch(b ecs.Batch, v int64, target []ecs.Entity) {
	var c T
	P(&c).Enc(v)
	m.m.AddBatch(b, &c, target...)
}
func (m mapT[T, P]) AddBatchFn(b ecs.Batch, fn func(e ecs.Entity, p unsafe.Pointer), target []ecs.Entity) {
	if fn == nil {
		m.m.AddBatchFn(b, nil, target...)
		return
	}
	m.m.AddBatchFn(b, func(e ecs.Entity, c *T) { fn(e, unsafe.Pointer(c)) }, target...)
}
func (m mapT[T, P]) Remove(e ecs.Entity)                            { m.m.Remove(e) }
func (m mapT[T, P]) RemoveBatch(b ecs.Batch, fn func(e ecs.Entity)) { m.m.RemoveBatch(b, fn) }
func (m mapT[T, P]) GetRelation(e ecs.Entity) ecs.Entity            { return m.m.GetRelation(e) }
func (m mapT[T, P]) GetRelationUnchecked(e ecs.Entity) ecs.Entity   { return m.m.GetRelationUnchecked(e) }
func (m mapT[T, P]) SetRelation(e ecs.Entity, target ecs.Entity)    { m.m.SetRelation(e, target) }
func (m mapT[T, P]) SetRelationBatch(b ecs.Batch, target ecs.Entity, fn func(e ecs.Entity)) {
	m.m.SetRelationBatch(b, target, fn)
}

func mk[T any, P Cd[T]](name string) Type {
	rt := reflect.TypeFor[T]()
	t := Type{
		Name:     name,
		RT:       rt,
		Comp:     ecs.C[T](),
		Size:     rt.Size(),
		ZeroSize: rt.Size() == 0,
		Enc:      func(p unsafe.Pointer, v int64) { P((*T)(p)).Enc(v) },
		Dec:      func(p unsafe.Pointer) (int64, bool) { return P((*T)(p)).Dec() },
		Canon: func(v int64) int64 {
			var c T
			save := BoxHook
			BoxHook = nil
			P(&c).Enc(v)
			BoxHook = save
			r, _ := P(&c).Dec()
			return r
		},
		NewMap: func(w *ecs.World) MapT {
			if alt() {
				return mapT[T, P]{m: (*ecs.Map[T])(nil).New(w)} // the nil-receiver constructor
			}
			return mapT[T, P]{m: ecs.NewMap[T](w)}
		},
		RegisterID: func(w *ecs.World) ecs.ID { return ecs.ComponentID[T](w) },
		Rel:        func(target ecs.Entity) ecs.Relation { return ecs.Rel[T](target) },
		AddRes: func(w *ecs.World, v int64) {
			c := new(T)
			P(c).Enc(v)
			if alt() {
				r := ecs.Resource[T]{}.New(w) // the generic accessor, built by the zero-value constructor
				r.Add(c)
				return
			}
			ecs.AddResource(w, c)
		},
		GetRes: func(w *ecs.World) (int64, bool, bool) {
			c := ecs.GetResource[T](w)
			r := ecs.NewResource[T](w)
			if c2 := r.Get(); c2 != c {
				return 0, false, c != nil // the two accessors disagree: reported as inconsistent
			}
			if c == nil {
				return 0, true, false
			}
			v, ok := P(c).Dec()
			return v, ok, true
		},
		HasRes:    func(w *ecs.World) bool { r := ecs.NewResource[T](w); return r.Has() },
		RemoveRes: func(w *ecs.World) { r := ecs.NewResource[T](w); r.Remove() },
		ResID:     func(w *ecs.World) ecs.ResID { return ecs.ResourceID[T](w) },
		NewValue: func(v int64) any {
			c := new(T)
			P(c).Enc(v)
			return c
		},
	}
	return t
}

var altCtr atomic.Uint64

// alt alternates between equivalent ways of calling the API.
func alt() bool { return altCtr.Add(1)%2 == 0 }

// Types is the universe, in a fixed canonical order.
var Types []Type

// Indices of the universe types, by name.
const (
	IP1 = iota
	IP2
	IB3
	IP4
	IP8
	IF8
	IP16
	IP24
	IP48
	IZ0
	IZ1
	IPtr
	ISlc
	IStr
	IMp
	IIfc
	IMix
	IR0
	IR1
	IR2
	IP12
	IFn
	N
)

func init() {
	Types = []Type{
		mk[P1]("P1"), mk[P2]("P2"), mk[B3]("B3"), mk[P4]("P4"), mk[P8]("P8"), mk[F8]("F8"),
		mk[P16]("P16"), mk[P24]("P24"), mk[P48]("P48"),
		mk[Z0]("Z0"), mk[Z1]("Z1"),
		mk[Ptr]("Ptr"), mk[Slc]("Slc"), mk[Str]("Str"), mk[Mp]("Mp"), mk[Ifc]("Ifc"), mk[Mix]("Mix"),
		mk[R0]("R0"), mk[R1]("R1"), mk[R2]("R2"),
		mk[P12]("P12"), mk[Fn]("Fn"),
	}
	for i := range Types {
		Types[i].Idx = i
	}
	for _, i := range []int{IR0, IR1, IR2} {
		Types[i].IsRel = true
	}
	for _, i := range []int{IPtr, ISlc, IStr, IMp, IIfc, IMix, IR2, IFn} {
		Types[i].HasPtr = true
	}
}

// RelIdx lists the indices of relation types.
var RelIdx = []int{IR0, IR1, IR2}

// Filler returns the k-th filler reflect.Type ([k+1]int8 wrapped in an array), used to offset component IDs.
func Filler(k int) reflect.Type {
	return reflect.ArrayOf(k+1, reflect.TypeFor[int8]())
}
