#!/bin/bash
# usage: coverage.sh [tier] [Cxx ...]  - statement coverage of /repo's ecs package under the monitors' workloads:
# builds every worker with -cover -coverpkg=ecs/..., runs the given checks (default: all, quick) into a scratch evidence
# directory and prints the functions and blocks of the library the workloads never executed (build/coverage/).
# This is an audit of reach ("it says nothing about paths the workload never drives"), not a registered check.
cd /verif
TIER=${1:-quick}; shift
PROPS=${@:-C01 C02 C03 C04 C05 C06 C07 C08 C09 C10 C11 C12 C13 C14 C15 C16 C17 C18 C19 C20}
COV=/verif/build/coverage; rm -rf $COV; mkdir -p $COV/raw
for p in $PROPS; do
  VERIF_COVER=$COV/raw VERIF_SCRATCH=/tmp/cov_$$ ./check $p $TIER 2>&1 | tail -1
done
rm -rf /tmp/cov_$$
source tools/goenv.sh
(cd /repo && $VGO tool covdata textfmt -i=$COV/raw -o $COV/profile.txt && $VGO tool cover -func=$COV/profile.txt > $COV/func.txt)
grep -v '100.0%' $COV/func.txt | sort -t: -k1,1 -k2,2n > $COV/notfull.txt
tail -1 $COV/func.txt
echo "functions never entered:"; awk '$NF=="0.0%"' $COV/func.txt
