#!/bin/bash
# usage: coverage.sh [tier] [Cxx ...]  - statement coverage of /repo's ecs package under the monitors' workloads:
# builds every worker with -cover -coverpkg=ecs/..., runs the given checks (default: all, quick) into a scratch evidence
# directory and prints the functions and blocks of the library the workloads never executed (build/coverage/).
# This is an audit of reach ("it says nothing about paths the workload never drives"), not a registered check.
cd /verif
TIER=${1:-quick}; shift
PROPS=${@:-C01 C02 C03 C04 C05 C06 C07 C08 C09 C10 C11 C12 C13 C14 C15 C16 C17 C18 C19 C20}
COV=/verif/build/coverage; rm -rf $COV; mkdir -p $COV/raw $COV/raw_atomic
for p in $PROPS; do
  VERIF_COVER=$COV/raw VERIF_SCRATCH=/tmp/cov_$$ ./check $p $TIER 2>&1 | tail -1
done
rm -rf /tmp/cov_$$
source tools/goenv.sh
cd /repo
$VGO tool covdata textfmt -i=$COV/raw -o $COV/p1.txt
[ -n "$(ls $COV/raw_atomic)" ] && $VGO tool covdata textfmt -i=$COV/raw_atomic -o $COV/p2.txt
python3 - $COV <<'PY'
import sys, glob
cov = sys.argv[1]
seen = {}
for f in glob.glob(cov + "/p[12].txt"):
    for line in open(f):
        if line.startswith("mode:"):
            continue
        key, n, c = line.rsplit(" ", 2)
        if "/ecs/" not in key:
            continue
        seen[(key, n)] = max(seen.get((key, n), 0), 1 if int(c) > 0 else 0)
with open(cov + "/profile.txt", "w") as o:
    o.write("mode: set\n")
    for (key, n), c in sorted(seen.items()):
        o.write(f"{key} {n} {c}\n")
PY
$VGO tool cover -func=$COV/profile.txt > $COV/func.txt
grep -v '100.0%' $COV/func.txt > $COV/notfull.txt
tail -1 $COV/func.txt
echo "functions never entered:"; awk '$NF=="0.0%"' $COV/func.txt
