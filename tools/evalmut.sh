#!/bin/bash
# usage: evalmut.sh <patch.diff> <tier> <Cxx> [Cyy ...]
# Applies a seeded change to /repo, runs the given checks, and undoes it straight afterwards.
P=$(realpath "$1"); TIER=$2; shift 2
cd /verif
git -C /repo diff --quiet || { echo "/repo has local modifications"; exit 2; }
git -C /repo apply "$P" || { echo "patch does not apply"; exit 2; }
trap 'git -C /repo checkout -- . ; git -C /verif checkout -- evidence 2>/dev/null' EXIT
for c in "$@"; do
  out=$(./check $c $TIER 2>&1); rc=$?
  echo "== $c $TIER rc=$rc: $(echo "$out" | grep -c '^VIOLATION') violation line(s)"
  echo "$out" | grep -A1 '^VIOLATION' | head -4 | cut -c1-400
  echo "$out" | grep '^INCONCLUSIVE' | head -2 | cut -c1-300
done
