#!/bin/bash
# usage: evalmut.sh <patch.diff> <tier> <Cxx> [Cyy ...]
# Runs the given checks against a scratch worktree of /repo HEAD with the seeded change applied
# (VERIF_REPO), removes the worktree afterwards; evidence and replay files of these runs go to a scratch directory
# (VERIF_SCRATCH), /verif/evidence is not touched.
P=$(realpath "$1"); TIER=$2; shift 2
V=$(cd "$(dirname "$0")/.." && pwd)   # works from a snapshot copy of /verif as well (tools/regress.sh)
cd $V
tools/trimcache.sh
WT=/tmp/eval_$$
git -C /repo worktree add -q --detach $WT HEAD || exit 2
trap 'git -C /repo worktree remove --force $WT; rm -rf $V/build/alt_$(echo -n $WT | sha1sum | cut -c1-8); rm -rf /tmp/evs_$$' EXIT
git -C $WT apply "$P" || { echo "patch does not apply"; exit 2; }
for c in "$@"; do
  out=$(VERIF_REPO=$WT VERIF_SCRATCH=/tmp/evs_$$ ./check $c $TIER 2>&1); rc=$?
  echo "== $c $TIER rc=$rc: $(echo "$out" | grep -c '^VIOLATION') violation line(s); $(echo "$out" | tail -1)"
  echo "$out" | grep -A1 '^VIOLATION' | head -4 | cut -c1-500
  echo "$out" | grep '^INCONCLUSIVE' | head -2 | cut -c1-300
done
