# Source me. Picks a Go toolchain that can build /repo (go 1.24) offline.
export GOFLAGS=-mod=mod GOPROXY=off
unset GOSUMDB
_pick() {
  # 1) default go with auto toolchain switch (cached go1.24.0 == baseline compiler)
  if (cd /repo && GOTOOLCHAIN=auto go version 2>/dev/null | grep -Eq 'go1\.(2[4-9]|[3-9][0-9])'); then
    export GOTOOLCHAIN=auto; export VGO=go; return 0
  fi
  # 2) the newer local toolchain
  if [ -x /opt/veriftools/go1.26.8/bin/go ]; then
    export GOTOOLCHAIN=local; export VGO=/opt/veriftools/go1.26.8/bin/go; return 0
  fi
  if command -v go1.26.8 >/dev/null 2>&1; then
    export GOTOOLCHAIN=local; export VGO=go1.26.8; return 0
  fi
  echo "goenv: no usable Go toolchain" >&2; return 1
}
_pick
