#!/usr/bin/env python3
"""Writes /verif/MANIFEST.json from the table below (kept in one place so it stays valid)."""
import json, os, subprocess

VERIF = os.path.dirname(os.path.dirname(os.path.abspath(__file__)))

P = {
 "C01": ("4.C01", "reference-model monitor: full state sweep (component sets, values, targets through ID-based, Map[T], MapN and query paths) after every op of generated histories; checkptr/ASan/race builds; further job groups: scripted method matrix per typed tuple, 'scale' histories (3000 entities, hundreds of relation tables), boundary scenarios (table of 70000 rows, components of 64 KiB and more)",
         "Every alive entity is compared with a sequential reference model after every operation of thousands of generated histories that mix all op kinds, API paths, capacities down to 1 and component-ID placements up to ID 255. Held on what was generated; histories are bounded (150-600 ops)."),
 "C02": ("4.C02", "reference-model monitor over churn histories: every handle ever issued re-checked with Alive after every op, duplicate detection, alive count via Filter0/Stats; rejected calls (misuse rows) must not consume a handle; dump/load worker with sibling worlds; boundary scenarios (256+ targets removed in one batch, one ID recycled 70000 times)",
         "Exploration of pool recycling orders (pools of 1-24 IDs, LIFO/FIFO/random, batch and single, Reset). Generation wrap-around (2^32 recycles) is out of reach."),
 "C03": ("4.C03", "query comparer against the model's result set: sampled UnsafeFilter / Filter0 / FilterN (arity 1-8) with With/Without/Exclusive/relation targets incl. dead targets; Count, EntityAt, pointer identity, GetRelation; job groups: method matrix, second world with other component IDs sharing the relation argument lists; boundary scenario with 66000 relation tables",
         "Every query result is compared as a multiset with the model; filters are sampled (4 per sweep), not enumerated."),
 "C04": ("4.C04", "reference-model monitor with relation-heavy histories: target zero-or-alive asserted for every relation of every entity after every op; panics on valid calls are violations; job groups: 'scale' histories, second world with other component IDs sharing relation argument lists; rejected calls in between",
         "Exploration of target death orders (single, batch, batch with children, two targets of one table), table recycling, Shrink/Reset interleaved."),
 "C05": ("4.C05", "cached-twin monitor: each registered filter has an unregistered twin, both compared with the model and each other after every op; batch ops and open queries use either instance; standing filters serve a Batch(rel) call before their first query, overlapping queries of one filter object; boundary scenario: 66000 registrations in one world",
         "Differential exploration; registration/unregistration at arbitrary points incl. while queries are open."),
 "C06": ("4.C06", "batch monitor (callback exactly once per selected entity, pointer identity, lock) + lockstep twin world executing the per-entity ID-based operations, both swept against the model; second job group: scripted method matrix (every batch method of every arity into empty and populated tables)",
         "Differential exploration over all seven batch operations with cached and uncached filters and relation targets."),
 "C07": ("4.C07", "lock monitor: IsLocked vs model after every op with up to 64 open queries (typed, unsafe, cached), rejected structural calls (22 kinds) must panic and leave the swept state unchanged; query-object misuse rows also run while other queries are open (Close of a finished query must not panic); second job group: race worker (2-64 goroutines, -race); scenarios: 70000 queries, rejected 65th query (once and 300 times)",
         "Exploration of open/step/exhaust/close interleavings; every lock-bit recycle order reached is a permutation of closes drawn at random."),
 "C08": ("4.C08", "observer oracle: three-valued expectation (must / must not / may) per (observer, op, entity) computed from the observer spec and the op's transition, compared with the observed callbacks; observers unregister others and register fresh ones from inside callbacks; observer objects reused after service in another world; typed observers of all arities; boundary scenario (300 observers, 70000 registrations)",
         "Exploration over random observer sets (7 slots, generic and typed) and all op kinds; independence from other observers follows because the expectation is computed per observer."),
 "C09": ("4.C09", "in-callback probes: inside every probed observer callback the entity is alive, affected, seen exactly once by queries, in pre-state (removals) or post-state (others), batch peers likewise, lock state as documented",
         "Exploration; probes run real queries inside callbacks."),
 "C10": ("4.C10", "enumerated misuse table (298 rows x 4 stale-handle kinds) fired at random points of generated histories: must panic, then full sweep + Stats().Entities.Used prove no effect; filter-state rows (registered filters cannot be modified), new-archetype rows, batch rows over registered filters; per-archetype Stats figures compared around rejected calls where Stats monitoring is on",
         "Every exported checked entity-taking operation of every arity, through dead / recycled / doubly-dead / zero handles, plus duplicate add, missing remove, empty lists, missing and dead relation targets, structural ops on a locked world."),
 "C11": ("4.C11", "sanitizers: checkptr + ASan builds; GC as a sanitizer (GOGC=1, gccheckmark, clobberfree, background allocation, forced GCs) with pointee contents decoded after every op; finalizer-based collectability monitor; zero check after every uninitialised add; scenario G1: finished queries must not pin abandoned column arrays (finalizer based, every typed tuple with a pointer-bearing component)",
         "Memory/GC safety held on the executions produced; the GC schedule is sampled."),
 "C12": ("4.C12", "trace digests: same case list executed in 4-8 separate processes and by two worlds in lockstep inside each; digest chain over handles, panics, iteration orders (cached and uncached) and Stats(); relation argument lists built with Rel/RelIdx live as long as the process and are handed to later worlds; standing-filter comparisons (Count, EntityAt) every 8th op; dump/load worker with sibling worlds",
         "Differential exploration across processes (hash seeds, heap layouts)."),
 "C13": ("4.C13", "Go race detector over a barrier-started concurrent query workload (2..64 goroutines, shared and private filters, cached and uncached, targets) + per-goroutine comparison with the frozen model; registered and unregistered collision filters queried first by all goroutines; scenario: 300 rejected queries while 64 are open",
         "Race-freedom decided by happens-before on the executions produced; exactness by comparison with the model."),
 "C14": ("4.C14", "scripted method matrix per instantiated tuple (Map1-12, Filter0-8, Query0-8, Exchange1-8, Observer1-4) + lockstep ID-based twin world; pointer identity of every Get/callback pointer with Unsafe.Get; coverage floor: every generated method >= 10 calls; second job group: second typed world with other component IDs sharing the world-independent argument objects; generic observers watch the matrix of every arity",
         "Exploration with a measured per-(type, method) coverage floor; 57 type tuples are instantiated, not all."),
 "C15": ("4.C15", "reference-model + query + cached-twin monitors after every Shrink and every later op; capacity bounds from Stats() after unbounded Shrink; convergence of Shrink(0) counted in calls; second job group 'bulk': whole tables created, emptied, shrunk and refilled (capacities 64-256, batches of up to 150, creations without initial values)",
         "Exploration of Shrink positions in relation- and cache-heavy histories."),
 "C16": ("4.C16", "reference-model monitor across Reset: the model restarts empty, every later op is judged as on a fresh world; old observers must stay silent, old filters/observers re-register; Stats figures; dump/load worker: every loaded world is reset and used again",
         "Exploration of (history, Reset, history) pairs incl. observers of every event type, resources, free tables, recycled IDs."),
 "C17": ("4.C17", "dump/load differential: Alive of every handle, lockstep creations/removals in source and loaded world; codec round trips over boundary + random pairs; malformed lengths; loads preceded by a rejected attempt on the locked target; kept and scribbled encodings; pre-Reset handles inside the loaded pool's capacity; Reset after load",
         "Exploration of free-list shapes; codecs exhaustive over an 11x11 boundary set."),
 "C18": ("4.C18", "registration sequences enumerated over every count 0..max in both mask widths; entities/queries at every word boundary and at the last ID; rejected registrations must not consume IDs; resources vs map model; generic late types used through Map/Map1/Filter1 right after registration in mid-history; second world with other IDs; interface-typed resources",
         "Counts are enumerated exhaustively, orders and type shapes sampled."),
 "C19": ("4.C19", "stats rules evaluated every 3rd op + replay twin: a fresh world replays the op prefix, asks Stats() once, must render identically to the incrementally maintained one; Stats() rules inside batch and observer callbacks; content figures of every archetype compared around rejected calls; dump/load worker (entity statistics of loaded worlds)",
         "Exploration; memory figures are checked as the documented products/sums."),
 "C20": ("4.C20", "four builds {-, ark_tiny, ark_debug, both} run the same case list; digest chains (handles, which calls panic, iteration orders, Stats) must be identical; debug-guarded misuse patterns must panic in every build; rows for copies of query values and for every query arity (any tuple)",
         "Differential exploration within 64 component types."),
}

NOTE = "trusted base: Go toolchain/runtime (and race detector, checkptr, ASan where used), the harness reference model written from the documentation, observation at the public API only; bounded histories"


def main():
    checks = []
    for pid in sorted(P):
        ref, tech, text = P[pid]
        checks.append(dict(
            property_id=pid,
            quick_cmd=f"./check {pid} quick",
            thorough_cmd=f"./check {pid} thorough",
            evidence_file=f"/verif/evidence/{pid}.json",
            replay_cmd_template=f"./check {pid} quick --replay {{path}}",
            engine="harness",
            level_claimed=dict(category="exploration", text=text, design_ref="DESIGN.md section " + ref),
            level_note=NOTE,
            technique=tech,
        ))
    m = dict(
        version=1,
        setup_cmd="bash tools/setup.sh",
        hooks=dict(
            guard="verif",
            enable="no hooks: every monitor observes the public API of package ecs; checks build the harness against /repo via a go.mod replace directive",
            baseline_off_cmd="cd /repo && GOFLAGS=-mod=mod GOPROXY=off go test -json -vet=off -count=1 -timeout 25m ./...",
            source_commits=[],
            add_only=True,
        ),
        engines=[dict(name="harness", path="/verif/harness", serves_properties=sorted(P),
                      kind_free_text="Go module: reference model + op language + driver + monitors (eng), generated typed wrappers (typed), workers (cmd/*); python orchestrator (tools/orch.py)")],
        checks=checks,
        notes="All 20 properties are claimed at level 'exploration' (runtime monitoring). 35 genuine defects (F1-F35) were found and repaired by 'fix:' commits in /repo; one (K1, C17) is recorded as a known finding (KNOWN_FINDINGS.txt, DESIGN.md section 5). 280 seeded changes from 14 rounds of fresh sub-agents are kept under seeded/ with the check that detects each; 277 are detected at the quick tier, one at the thorough tier only, one not, one was neutralised by a repair (DESIGN.md section 7).",
        not_applicable=[],
    )
    json.dump(m, open(os.path.join(VERIF, "MANIFEST.json"), "w"), indent=1)
    print("wrote MANIFEST.json with", len(checks), "checks")


if __name__ == "__main__":
    main()
