#!/usr/bin/env python3
"""usage: mkmeta.py <Cxx-n> <detected_by text> [needs text]
Writes seeded/<id>/meta.json; the change description is taken from the sub-agent's README."""
import json, re, sys, os
sid, det = sys.argv[1], sys.argv[2]
needs = sys.argv[3] if len(sys.argv) > 3 else ""
d = f"/verif/seeded/{sid}"
txt = open(f"{d}/AGENT_README.md").read()
# first substantial paragraphs
paras = [p.strip() for p in re.split(r"\n\s*\n", txt) if len(p.strip()) > 60 and not p.strip().startswith("```")]
change = re.sub(r"\s+", " ", " ".join(paras[:2]))[:900]
if not needs:
    m = re.search(r"(?is)(what (it|is) (takes|needed|needs)[^\n]*\n)(.{40,700}?)(\n\s*\n|\n#)", txt)
    needs = re.sub(r"\s+", " ", m.group(4))[:600] if m else "see AGENT_README.md"
prop = sid.split("-")[0]
rnd = sid.split("-")[1]
meta = dict(id=sid, property=prop, change=change, needs_to_manifest=needs,
            origin=f"fresh sub-agent (round {rnd}) given the property text, a scratch worktree of /repo HEAD and short descriptions of the earlier changes to avoid",
            validated=[f"tools/validatemut.sh {d}: suite passes with the change (default, ark_tiny, ark_debug); demo passes without the change; demo fails with the change"],
            evaluated=f"tools/evalmut.sh {d}/patch.diff quick {prop}", detected_by=det)
json.dump(meta, open(f"{d}/meta.json", "w"), indent=1)
print("wrote", d + "/meta.json")
