#!/usr/bin/env python3
"""usage: mkround.py <round>  - prepares one scratch worktree of /repo HEAD per property for a round of seeded changes:
/tmp/mut<round>_<Cxx>/MUT/PROPERTY.txt (the property text only) and ALREADY_DONE.txt (short descriptions of the changes
seeded for that property in earlier rounds, so the new one differs). Nothing from /verif's machinery is given."""
import json, os, subprocess, sys, glob

rnd = sys.argv[1]
for line in open("/verif/properties.jsonl"):
    p = json.loads(line)
    pid = p["id"]
    wt = f"/tmp/mut{rnd}_{pid}"
    if not os.path.exists(wt):
        subprocess.run(["git", "-C", "/repo", "worktree", "add", "-q", "--detach", wt, "HEAD"], check=True)
    os.makedirs(f"{wt}/MUT", exist_ok=True)
    with open(f"{wt}/MUT/PROPERTY.txt", "w") as f:
        f.write(f"{pid}: {p['title']}\n\nStatement: {p['statement']}\n\nQuantifier: {p['quantifier']['text']}\n\n"
                f"Why the existing tests cannot settle it: {p['why_tests_cant']}\n\nAnchors (files/functions the property lives in): "
                f"{json.dumps(p.get('anchors', {}))}\n")
    with open(f"{wt}/MUT/ALREADY_DONE.txt", "w") as f:
        for m in sorted(glob.glob(f"/verif/seeded/{pid}-*/meta.json")):
            meta = json.load(open(m))
            f.write(f"- {meta['id']}: {meta['change'][:500]}\n\n")
print(subprocess.run(["git", "-C", "/repo", "worktree", "list"], capture_output=True, text=True).stdout.count("\n"), "worktrees")
