#!/usr/bin/env python3
"""Systematic mutation sweep (validation of the checks, not a registered check).
Stage 1: generate small syntactic mutants of the library, keep those that compile and pass the repository suite.
Stage 2: run a reduced quick tier of the checks against each survivor (scratch worktree, VERIF_REPO).
Results: build/mutation/stage1.jsonl, stage2.jsonl. Usage: mutate.py stage1 | stage2 [max] | report"""
import json, os, re, subprocess, sys, random, shutil
from multiprocessing import Pool

VERIF = "/verif"
OUT = os.path.join(VERIF, "build", "mutation")
FILES = ["storage.go", "world_internal.go", "world.go", "table.go", "column.go", "archetype.go", "cache.go", "events.go", "pool.go",
         "lock.go", "graph.go", "relation.go", "query.go", "query_count.go", "filter.go", "map.go", "unsafe.go", "registry.go",
         "util.go", "observer.go", "resources.go", "mask256.go", "maps_func.go", "entity.go", "id_map.go"]
CHECKS = ["C01", "C02", "C03", "C04", "C05", "C06", "C07", "C08", "C09", "C10", "C14", "C15", "C16", "C17", "C18", "C19"]
ENV = dict(os.environ, GOFLAGS="-mod=mod", GOPROXY="off")
ENV.pop("GOSUMDB", None)


def candidates():
    out = []
    for f in FILES:
        path = f"/repo/ecs/{f}"
        if not os.path.exists(path):
            continue
        lines = open(path).read().split("\n")
        depth_comment = False
        for i, l in enumerate(lines):
            st = l.strip()
            if not st or st.startswith("//") or st.startswith("panic(") or "panic(" in st:
                continue
            # delete a standalone call or assignment statement
            if re.match(r"^\s+[\w\.\[\]\(\)\*&]+\(.*\)$", l) and not st.startswith(("return", "defer", "go ", "func", "if", "for", "switch", "case")):
                out.append((f, i, "DEL", ""))
            elif re.match(r"^\s+[\w\.\[\]\*]+(\[[^\]]+\])?(\.\w+)* (=|\+=|-=) .+$", l) and ":=" not in l:
                out.append((f, i, "DEL", ""))
            elif re.match(r"^\s+[\w\.\[\]\*]+(\+\+|--)$", l):
                out.append((f, i, "DEL", ""))
            m = re.match(r"^(\s+)if ([^;{]+) \{$", l)
            if m and ":=" not in l:
                out.append((f, i, "NEG", f"{m.group(1)}if !({m.group(2)}) {{"))
            for a, b in ((" < ", " <= "), (" <= ", " < "), (" > ", " >= "), (" >= ", " > "), (" == ", " != "), (" != ", " == "), (" && ", " || "), (" || ", " && ")):
                if a in l and not st.startswith("//"):
                    out.append((f, i, "REL" + a.strip(), l.replace(a, b, 1)))
                    break
            if re.search(r"\+ 1\b", l):
                out.append((f, i, "OFF+1", re.sub(r"\+ 1\b", "+ 0", l, count=1)))
            elif re.search(r"- 1\b", l):
                out.append((f, i, "OFF-1", re.sub(r"- 1\b", "- 0", l, count=1)))
    return out


def worktree(i):
    wt = f"/tmp/mw_{i}"
    if not os.path.exists(wt):
        subprocess.run(["git", "-C", "/repo", "worktree", "add", "-q", "--detach", wt, "HEAD"], check=True)
    return wt


BASE = "1e40aea"  # the commit stage 1 ran on: line numbers in stage1.jsonl refer to it


def base_lines(f):
    return subprocess.run(["git", "-C", "/repo", "show", f"{BASE}:ecs/{f}"], capture_output=True, text=True, check=True).stdout.split("\n")


def apply(wt, mut):
    """Applies a stage-1 mutant to the current /repo sources: the mutated line is located by its text (nearest occurrence
    to its old position), so that later fix commits do not shift it. Returns False if the line no longer exists."""
    f, i, op, new = mut
    path = f"{wt}/ecs/{f}"
    old = base_lines(f)
    lines = open(f"/repo/ecs/{f}").read().split("\n")
    text = old[i]
    cands = [j for j, l in enumerate(lines) if l == text]
    if not cands:
        return False
    # prefer the occurrence with the same neighbours, else the nearest
    ctx = [j for j in cands if 0 < j < len(lines) - 1 and 0 < i < len(old) - 1 and lines[j - 1] == old[i - 1] and lines[j + 1] == old[i + 1]]
    j = min(ctx or cands, key=lambda j: abs(j - i))
    if op == "DEL":
        del lines[j]
    else:
        lines[j] = new
    open(path, "w").write("\n".join(lines))
    return True


def restore(wt, mut):
    shutil.copy(f"/repo/ecs/{mut[0]}", f"{wt}/ecs/{mut[0]}")


def stage1_one(args):
    idx, mut = args
    wid = (os.getpid() % 64)
    wt = worktree(wid)
    apply(wt, mut)
    try:
        b = subprocess.run(["go", "build", "./ecs/"], cwd=wt, env=ENV, capture_output=True, text=True, timeout=300)
        if b.returncode != 0:
            return dict(id=idx, mut=mut, result="nocompile")
        try:
            t = subprocess.run(["go", "test", "-count=1", "./ecs/", "./ecs/stats/"], cwd=wt, env=ENV, capture_output=True, text=True, timeout=180)
            res = "survived" if t.returncode == 0 else "killed-by-suite"
        except subprocess.TimeoutExpired:
            res = "suite-timeout"
        return dict(id=idx, mut=mut, result=res)
    finally:
        restore(wt, mut)


def stage2_one(args):
    idx, mut = args
    wid = 100 + (os.getpid() % 64)
    wt = worktree(wid)
    subprocess.run(["git", "-C", wt, "checkout", "-q", "-f", "--detach", subprocess.run(["git", "-C", "/repo", "rev-parse", "HEAD"], capture_output=True, text=True).stdout.strip()])
    if not apply(wt, mut):
        return dict(id=idx, mut=mut, caught=[], inconclusive=[], gone=True)
    scratch = f"/tmp/ms_{wid}"
    shutil.rmtree(scratch, ignore_errors=True)
    os.makedirs(scratch)
    env = dict(os.environ, VERIF_REPO=wt, VERIF_SCALE="0.12", VERIF_VARIANTS="plain", VERIF_NSHARD="2", VERIF_JOBS="2", VERIF_SCRATCH=scratch)
    caught, inconc = [], []
    try:
        for c in CHECKS:
            try:
                p = subprocess.run(["./check", c, "quick"], cwd=VERIF, env=env, capture_output=True, text=True, timeout=900)
            except subprocess.TimeoutExpired:
                inconc.append(c)
                continue
            if p.returncode == 1:
                first = next((l for l in p.stdout.split("\n") if l.startswith("  ")), "")
                caught.append((c, first.strip()[:200]))
                if len(caught) >= 2:
                    break
            elif p.returncode != 0:
                inconc.append(c)
        return dict(id=idx, mut=mut, caught=caught, inconclusive=inconc)
    finally:
        restore(wt, mut)
        shutil.rmtree(scratch, ignore_errors=True)
        shutil.rmtree(os.path.join(VERIF, "build", "alt_" + __import__("hashlib").sha1(os.path.realpath(wt).encode()).hexdigest()[:8]), ignore_errors=True)


def main():
    os.makedirs(OUT, exist_ok=True)
    cmd = sys.argv[1]
    if cmd == "stage1":
        c = candidates()
        random.Random(7).shuffle(c)
        limit = int(sys.argv[2]) if len(sys.argv) > 2 else len(c)
        c = c[:limit]
        print(len(c), "candidates")
        with Pool(int(os.environ.get("MUT_WORKERS", "6"))) as pool, open(os.path.join(OUT, "stage1.jsonl"), "w") as f:
            for r in pool.imap_unordered(stage1_one, list(enumerate(c))):
                f.write(json.dumps(r) + "\n")
                f.flush()
    elif cmd == "stage2":
        surv = [json.loads(l) for l in open(os.path.join(OUT, "stage1.jsonl")) if '"survived"' in l]
        random.Random(11).shuffle(surv)
        done = set()
        p2 = os.path.join(OUT, "stage2.jsonl")
        if os.path.exists(p2):
            for l in open(p2):
                r = json.loads(l)
                if r.get("caught") or r.get("gone") or not r.get("inconclusive"):
                    done.add(r["id"])
                else:
                    done.discard(r["id"])
        surv = [s_ for s_ in surv if s_["id"] not in done]
        limit = int(sys.argv[2]) if len(sys.argv) > 2 else len(surv)
        surv = surv[:limit]
        print(len(surv), "survivors to evaluate")
        with Pool(int(os.environ.get("MUT_WORKERS", "4"))) as pool, open(p2, "a") as f:
            for r in pool.imap_unordered(stage2_one, [(s_["id"], tuple(s_["mut"])) for s_ in surv]):
                f.write(json.dumps(r) + "\n")
                f.flush()
                if shutil.disk_usage("/").free < 40e9:
                    subprocess.run(["go", "clean", "-cache"], env=ENV)
    elif cmd == "report":
        s1 = [json.loads(l) for l in open(os.path.join(OUT, "stage1.jsonl"))]
        from collections import Counter
        print("stage1:", Counter(r["result"] for r in s1))
        p2 = os.path.join(OUT, "stage2.jsonl")
        if os.path.exists(p2):
            last = {}
            for l in open(p2):
                r = json.loads(l)
                last[r["id"]] = r
            s2 = [r for r in last.values() if not r.get("gone")]
            print("stage2:", len(s2), "evaluated;", sum(1 for r in s2 if r["caught"]), "caught;", sum(1 for r in s2 if not r["caught"]), "not caught")
            for r in s2:
                if not r["caught"]:
                    f, i, op, new = r["mut"]
                    orig = base_lines(f)[i]
                    print(f"  MISSED {f}:{i+1} {op}: {orig.strip()[:110]}  ->  {new.strip()[:110]}  inconclusive={r['inconclusive']}")
    elif cmd == "eval":
        # mutate.py eval <id> <Cxx> [Cyy ...]: one mutant against full-volume quick checks (all variants)
        idx = int(sys.argv[2])
        mut = next(tuple(json.loads(l)["mut"]) for l in open(os.path.join(OUT, "stage1.jsonl")) if json.loads(l)["id"] == idx)
        wt = worktree(900 + idx % 50)
        subprocess.run(["git", "-C", wt, "checkout", "-q", "-f", "--detach", subprocess.run(["git", "-C", "/repo", "rev-parse", "HEAD"], capture_output=True, text=True).stdout.strip()])
        if not apply(wt, mut):
            print("mutated line no longer exists")
            return
        print(subprocess.run(["git", "-C", wt, "diff", "--stat"], capture_output=True, text=True).stdout.strip())
        scratch = f"/tmp/ms_eval_{idx}"
        env = dict(os.environ, VERIF_REPO=wt, VERIF_SCRATCH=scratch)
        try:
            for c in sys.argv[3:]:
                p = subprocess.run(["./check", c, "quick"], cwd=VERIF, env=env, capture_output=True, text=True)
                lines = p.stdout.strip().split("\n")
                first = next((l for l in lines if l.startswith("  ")), "")
                print(c, "rc", p.returncode, lines[-1][:120], "|", first.strip()[:200])
        finally:
            restore(wt, mut)
            shutil.rmtree(scratch, ignore_errors=True)
            shutil.rmtree(os.path.join(VERIF, "build", "alt_" + __import__("hashlib").sha1(os.path.realpath(wt).encode()).hexdigest()[:8]), ignore_errors=True)
            subprocess.run(["git", "-C", "/repo", "worktree", "remove", "--force", wt])
    elif cmd == "cleanup":
        for d in os.listdir("/tmp"):
            if d.startswith("mw_"):
                subprocess.run(["git", "-C", "/repo", "worktree", "remove", "--force", "/tmp/" + d])
        subprocess.run(["git", "-C", "/repo", "worktree", "prune"])


if __name__ == "__main__":
    main()
