#!/usr/bin/env python3
"""Orchestrator: builds the worker binaries from /repo's current working tree, fans the
shards of one property's check out over child processes, merges what the monitors
observed, writes /verif/evidence/<id>.json and prints the verdict lines.

usage: orch.py <Cnn> quick|thorough [--replay <file>]
exit: 0 held on everything explored, 1 violation, 2 inconclusive."""
import json, os, subprocess, sys, time, hashlib, shutil, re, glob
from concurrent.futures import ThreadPoolExecutor

VERIF = os.path.dirname(os.path.dirname(os.path.abspath(__file__)))
HARNESS = os.path.join(VERIF, "harness")
BUILD = os.path.join(VERIF, "build")
NPROC = int(os.environ.get("VERIF_JOBS", "16"))
EVIDENCE_DIR = os.path.join(VERIF, "evidence")
REPLAY_DIR = os.path.join(VERIF, "replays")

sys.path.insert(0, os.path.join(VERIF, "tools"))
import plans  # noqa: E402


def goenv():
    env = dict(os.environ)
    env["GOFLAGS"] = "-mod=mod"
    env["GOPROXY"] = "off"
    env.pop("GOSUMDB", None)
    # default go with auto toolchain switch (the baseline's compiler), else the newer local toolchain
    go = "go"
    env["GOTOOLCHAIN"] = "auto"
    try:
        out = subprocess.run([go, "version"], cwd="/repo", env=env, capture_output=True, text=True, timeout=120).stdout
    except Exception:
        out = ""
    if not re.search(r"go1\.(2[4-9]|[3-9][0-9])", out):
        go = "/opt/veriftools/go1.26.8/bin/go"
        env["GOTOOLCHAIN"] = "local"
    return go, env


GO, GOENV = goenv()

VARIANTS = {
    # name: (extra go build flags, build tags)
    "plain": ([], ""),
    "checkptr": (["-gcflags=all=-d=checkptr"], ""),
    "race": (["-race"], ""),
    "asan": (["-asan"], ""),
    "tiny": ([], "ark_tiny"),
    "debug": ([], "ark_debug"),
    "tinydebug": ([], "ark_tiny ark_debug"),
}


def build(cmd, variant):
    """Builds ./cmd/<cmd> in the given variant from /repo's current working tree."""
    flags, tags = VARIANTS[variant]
    bdir = BUILD
    modflag = []
    repo = os.environ.get("VERIF_REPO")
    if repo and os.path.realpath(repo) != "/repo":
        # build against another checkout of the repository (background sweeps on a snapshot, scratch worktrees)
        tag = hashlib.sha1(os.path.realpath(repo).encode()).hexdigest()[:8]
        bdir = os.path.join(BUILD, "alt_" + tag)
        os.makedirs(bdir, exist_ok=True)
        mod = open(os.path.join(HARNESS, "go.mod")).read().replace("=> /repo", "=> " + os.path.realpath(repo))
        open(os.path.join(bdir, "alt.mod"), "w").write(mod)
        shutil.copy(os.path.join(HARNESS, "go.sum"), os.path.join(bdir, "alt.sum"))
        modflag = ["-modfile=" + os.path.join(bdir, "alt.mod")]
    out = os.path.join(bdir, f"{cmd}_{variant}")
    os.makedirs(BUILD, exist_ok=True)
    if os.environ.get("VERIF_COVER"):
        # statement coverage of the library under the monitors' workloads (tools/coverage.sh); not used by registered checks
        out += "_cover"
        flags = flags + ["-cover", f"-coverpkg=github.com/mlange-42/ark/ecs/...,verifharness/cmd/{cmd}"]  # the main package must be in the list, else nothing is written
    args = [GO, "build"] + modflag + ["-o", out] + flags
    if tags:
        args += ["-tags", tags]
    args += [f"./cmd/{cmd}"]
    t0 = time.time()
    p = subprocess.run(args, cwd=HARNESS, env=GOENV, capture_output=True, text=True)
    if p.returncode != 0:
        return None, p.stdout + p.stderr
    return out, f"built {cmd}/{variant} in {time.time()-t0:.1f}s"


def run_job(job, outdir, idx):
    """Runs one child process. Returns dict(result=json or None, rc, log, job)."""
    out = os.path.join(outdir, f"job{idx}.json")
    log = os.path.join(outdir, f"job{idx}.log")
    prog = os.path.join(outdir, f"job{idx}.progress")
    args = [job["bin"]] + job["args"] + ["-out", out, "-progress", prog]
    env = dict(os.environ)
    env.update(job.get("env", {}))
    if job["variant"] == "race":
        # explore: do not stop at the first report, write reports to files (exit codes are not trusted)
        env["GORACE"] = f"halt_on_error=0 log_path={outdir}/race{idx}"
    if os.environ.get("VERIF_COVER"):
        # -race builds count in atomic mode, which covdata refuses to mix with the others
        env["GOCOVERDIR"] = os.environ["VERIF_COVER"] + ("_atomic" if job["variant"] == "race" else "")
        os.makedirs(env["GOCOVERDIR"], exist_ok=True)
    wd = job.get("watchdog", 1500)
    cmd = ["timeout", "-s", "QUIT", "-k", "20", str(wd)] + args
    with open(log, "w") as lf:
        lf.write("$ " + " ".join(args) + "\n")
        lf.flush()
        t0 = time.time()
        rc = subprocess.run(cmd, stdout=lf, stderr=subprocess.STDOUT, env=env, cwd=outdir).returncode
    res = None
    if os.path.exists(out):
        try:
            res = json.load(open(out))
        except Exception:
            res = None
    return dict(result=res, rc=rc, log=log, job=job, wall=time.time() - t0, progress=prog, idx=idx)


def load_known():
    known, fixed = {}, {}
    path = os.path.join(VERIF, "KNOWN_FINDINGS.txt")
    if os.path.exists(path):
        for line in open(path):
            line = line.strip()
            if not line or line.startswith("#"):
                continue
            m = re.match(r"known:\s+property=(\S+)\s+scenario=(\S+)\s+(.*)", line)
            if m:
                known.setdefault(m.group(1), {})[m.group(2)] = m.group(3)
                continue
            m = re.match(r"fixed:\s+property=(\S+)\s+(\S+)\s+(.*)", line)
            if m:
                fixed.setdefault(m.group(1), []).append((m.group(2), m.group(3)))
    return known, fixed


def main():
    if len(sys.argv) < 3:
        print(__doc__)
        sys.exit(2)
    prop, tier = sys.argv[1], sys.argv[2]
    replay = None
    if "--replay" in sys.argv:
        replay = sys.argv[sys.argv.index("--replay") + 1]
    seed = int(os.environ.get("VERIF_SEED", "1"))
    t0 = time.time()
    known, _fixed = load_known()
    avoid = sorted(set(a for p in known.values() for s in p for a in [s.split("-")[0]]))
    plan = plans.plan(prop, tier, seed, avoid)
    if replay:
        rp = json.load(open(replay))
        plan = plans.replay_plan(prop, rp)
    # internal: mutation sweeps run several orchestrators at once; VERIF_SCRATCH gives each its own output,
    # evidence and replay directories (the registered commands never set it)
    scratch = os.environ.get("VERIF_SCRATCH")
    global EVIDENCE_DIR, REPLAY_DIR
    if scratch:
        EVIDENCE_DIR = os.path.join(scratch, "evidence")
        REPLAY_DIR = os.path.join(scratch, "replays")
    outdir = os.path.join(scratch or BUILD, "out", f"{prop}_{tier}")
    shutil.rmtree(outdir, ignore_errors=True)
    os.makedirs(outdir, exist_ok=True)

    # ---- build
    bins = {}
    for (cmd, variant) in sorted(set((j["cmd"], j["variant"]) for j in plan["jobs"])):
        b, msg = build(cmd, variant)
        if b is None:
            print(f"INCONCLUSIVE property={prop} build of {cmd}/{variant} failed")
            print(msg[-4000:])
            write_evidence(prop, tier, seed, plan, None, [], time.time() - t0, inconclusive="build failed")
            sys.exit(2)
        bins[(cmd, variant)] = b
    for j in plan["jobs"]:
        j["bin"] = bins[(j["cmd"], j["variant"])]

    # ---- run
    with ThreadPoolExecutor(max_workers=NPROC) as ex:
        futs = [ex.submit(run_job, j, outdir, i) for i, j in enumerate(plan["jobs"])]
        results = [f.result() for f in futs]

    # ---- merge
    violations = []   # (description, replay dict)
    inconclusive = []
    merged = plans.new_merge()
    for r in results:
        res, rc, job = r["result"], r["rc"], r["job"]
        tail = ""
        try:
            tail = open(r["log"]).read()[-6000:]
        except Exception:
            pass
        if rc in (124, 137) or (rc == 131 and res is None and r["wall"] >= job.get("watchdog", 1500) - 5):
            inconclusive.append(f"job {r['idx']} ({job['label']}) hit the watchdog after {r['wall']:.0f}s")
            continue
        if res is None:
            if rc == 3 or "HARNESS-PANIC" in tail:
                inconclusive.append(f"job {r['idx']} ({job['label']}) harness panic, see {r['log']}")
                continue
            # the process died without writing its result: runtime fatal error, sanitizer report, escaped panic
            kind = "process died"
            m = re.search(r"(fatal error: [^\n]*|checkptr: [^\n]*|WARNING: DATA RACE|==\d+==ERROR: AddressSanitizer[^\n]*|panic: [^\n]*)", tail)
            if m:
                kind = m.group(1)
            violations.append((f"{job['label']}: {kind} (rc={rc})", dict(job=job_public(job), log_tail=tail, progress=read_progress(r["progress"]))))
            continue
        if res.get("harness_panics", 0) > 0:
            inconclusive.append(f"job {r['idx']} ({job['label']}) harness panic, see {r['log']}")
        plans.merge(merged, res, job)
        for v in res.get("violations") or []:
            violations.append((f"{job['label']} case {v['case']}: {v['violations'][0] if v['violations'] else ''}",
                               dict(job=job_public(job), case=v["case"], seed=v["seed"], config=v.get("config"), violations=v["violations"], ops=v.get("ops", []))))
        for extra in res.get("extra_violations") or []:
            violations.append((f"{job['label']}: {extra.get('msg','')}", dict(job=job_public(job), detail=extra)))
        # race reports are written to log files by the runtime
        for lf in glob.glob(os.path.join(outdir, f"race{r['idx']}.*")):
            txt = open(lf).read()
            n = txt.count("WARNING: DATA RACE")
            if n:
                merged["race_reports"] = merged.get("race_reports", 0) + n
                violations.append((f"{job['label']}: {n} data race report(s)", dict(job=job_public(job), race_log=dedupe_races(txt))))

    # cross-job comparisons (determinism across processes, build configurations)
    for desc, detail in plans.cross_check(prop, merged, results):
        violations.append((desc, detail))

    # ---- directed scenarios vs KNOWN_FINDINGS
    known_lines = []
    for name, msgs in sorted(merged["scenarios"].items()):
        if not msgs:
            continue
        k = known.get(prop, {}).get(name)
        if k is None:
            # a finding listed for another property suppresses nothing here
            violations.append((f"directed scenario {name}: {msgs[0]}", dict(scenario=name, messages=msgs)))
        else:
            known_lines.append(f"KNOWN-FINDING: property={prop} {k}")
    for name in known.get(prop, {}):
        if name in merged["scenarios"] and not merged["scenarios"][name]:
            print(f"NOTE: finding {name} listed as known no longer reproduces")

    if not replay:  # a replay runs one recorded case: coverage floors do not apply
        inconclusive += plans.coverage_floor(prop, tier, merged)

    wall = time.time() - t0
    # ---- verdict
    for l in known_lines:
        print(l)
    rc = 0
    replay_paths = []
    if violations:
        rdir = os.path.join(REPLAY_DIR, prop)
        os.makedirs(rdir, exist_ok=True)
        for i, (desc, detail) in enumerate(violations[:5]):
            h = hashlib.sha1(json.dumps(detail, sort_keys=True, default=str).encode()).hexdigest()[:10]
            path = os.path.join(rdir, f"{tier}_{h}.json")
            detail = dict(detail)
            detail["property"] = prop
            detail["description"] = desc
            json.dump(detail, open(path, "w"), indent=1, default=str)
            replay_paths.append(path)
            print(f"VIOLATION property={prop} replay={path}")
            print("  " + desc[:1500])
        rc = 1
    elif inconclusive:
        for m in inconclusive:
            print(f"INCONCLUSIVE property={prop} {m}")
        rc = 2
    if not replay:  # a replay must not replace the evidence of the last real run
        write_evidence(prop, tier, seed, plan, merged, violations, wall, inconclusive="; ".join(inconclusive) if inconclusive else None, known=known_lines)
    ev = merged
    print(f"{prop} {tier}: {ev['cases']} histories / {ev['ops']} ops, {len(ev['hashes'])} distinct, "
          f"{sum(1 for v in ev['hashes'].values() if v)} distinct non-trivial, {len(violations)} violation(s), wall {wall:.1f}s")
    sys.exit(rc)


def job_public(job):
    return {k: job[k] for k in ("cmd", "variant", "args", "label") if k in job} | {"env": job.get("env", {})}


def read_progress(path):
    try:
        b = open(path, "rb").read(32)
        import struct
        seed, case, op, kind = struct.unpack("<QQQQ", b)
        return dict(seed=seed, case=case, op=op, kind=kind)
    except Exception:
        return None


def dedupe_races(txt):
    """Deduplicates race reports by the pair of outermost non-runtime frames."""
    blocks = txt.split("WARNING: DATA RACE")[1:]
    seen = {}
    for b in blocks:
        frames = re.findall(r"^\s+([\w./()*\[\]·-]+)\(\)\n\s+(\S+):\d+", b, flags=re.M)
        fr = [f[0] for f in frames if "ark/ecs" in f[0]]
        key = " <-> ".join(sorted(set(fr[:1] + fr[-1:]))) if fr else "?"
        if key not in seen:
            seen[key] = "WARNING: DATA RACE" + b[:3000]
    return seen


def write_evidence(prop, tier, seed, plan, merged, violations, wall, inconclusive=None, known=None):
    os.makedirs(EVIDENCE_DIR, exist_ok=True)
    cov = {}
    if merged is not None:
        nontrivial = sum(1 for v in merged["hashes"].values() if v)
        cov = dict(
            evaluations=merged["cases"],
            distinct_nontrivial=nontrivial,
            rule=plan.get("rule", ""),
            samples=merged["samples"][:3] or [["(no sample recorded)"]],
            operations_executed=merged["ops"],
            distinct_histories=len(merged["hashes"]),
            counters={k: merged["counters"][k] for k in sorted(merged["counters"])},
            distinct_archetype_masks_max_per_shard=merged.get("masks", 0),
            distinct_filter_specs_max_per_shard=merged.get("filters", 0),
            builds=sorted(set(f"{j['cmd']}/{j['variant']}" for j in plan["jobs"])),
            jobs=len(plan["jobs"]),
            directed_scenarios={k: ("held" if not v else v) for k, v in sorted(merged["scenarios"].items())},
        )
        for k in ("misuse", "methods", "race_reports", "extra"):
            if merged.get(k):
                cov[k] = merged[k]
    else:
        cov = dict(evaluations=0, distinct_nontrivial=0, rule=plan.get("rule", ""), samples=[["(nothing ran)"]])
    if inconclusive:
        cov["inconclusive"] = inconclusive
    if known:
        cov["known_findings"] = known
    ev = dict(property_id=prop, tier=tier, seed=seed, level="exploration", coverage=cov,
              assumptions=plan.get("assumptions", []), wall_s=round(wall, 2), violations=len(violations))
    json.dump(ev, open(os.path.join(EVIDENCE_DIR, f"{prop}.json"), "w"), indent=1, default=str)


if __name__ == "__main__":
    main()
