"""Per-property job plans for the orchestrator."""
import os

NSHARD = 16

# engine-based checks: profile, extra worker flags, cases per build variant and tier
ENGINE = {
    "C01": dict(profile="general", flags=["-deep", "3", "-queries", "1", "-standing", "8"],
                quick=dict(plain=3200, checkptr=800), thorough=dict(plain=120000, checkptr=24000, asan=1600, race=1600),
                covkey="", rule_extra="non-trivial: >= 20 effective ops"),
    "C02": dict(profile="churn", flags=["-deep", "0", "-queries", "1", "-minops", "200", "-maxops", "600"],
                quick=dict(plain=3200, checkptr=400), thorough=dict(plain=100000, checkptr=16000),
                covkey="", rule_extra="non-trivial: >= 20 effective ops"),
    "C03": dict(profile="query", flags=["-deep", "6", "-queries", "4", "-deadq", "-standing", "10"],
                quick=dict(plain=2400, checkptr=400), thorough=dict(plain=80000, checkptr=12000),
                covkey="", rule_extra="non-trivial: >= 20 effective ops"),
    "C04": dict(profile="relation", flags=["-deep", "6", "-queries", "2", "-standing", "6"],
                quick=dict(plain=3200, checkptr=400), thorough=dict(plain=100000, checkptr=16000),
                covkey="target-death", rule_extra="non-trivial: >= 20 effective ops and at least one relation target with children died"),
    "C05": dict(profile="cache", flags=["-deep", "0", "-queries", "1", "-standing", "1"],
                quick=dict(plain=2400, checkptr=400), thorough=dict(plain=80000, checkptr=12000),
                covkey="", rule_extra="non-trivial: >= 20 effective ops"),
    "C06": dict(profile="batch", flags=["-deep", "6", "-queries", "1", "-standing", "5", "-twin", "unsafe"],
                quick=dict(plain=2400, checkptr=400), thorough=dict(plain=80000, checkptr=12000),
                covkey="batch-nonempty", rule_extra="non-trivial: >= 20 effective ops and at least one batch with a non-empty selection"),
    "C07": dict(profile="lock", flags=["-deep", "0", "-queries", "1", "-standing", "8"],
                quick=dict(plain=2400, checkptr=400), thorough=dict(plain=80000, checkptr=12000),
                covkey="locked-op", rule_extra="non-trivial: >= 20 effective ops and ops executed while queries were open"),
    "C08": dict(profile="observers", flags=["-deep", "0", "-queries", "0", "-sweep", "3"],
                quick=dict(plain=4800, checkptr=400), thorough=dict(plain=160000, checkptr=16000),
                covkey="obs-fired", rule_extra="non-trivial: >= 20 effective ops and at least one observer callback"),
    "C09": dict(profile="callbacks", flags=["-deep", "0", "-queries", "0", "-sweep", "3"],
                quick=dict(plain=3200, checkptr=400), thorough=dict(plain=100000, checkptr=12000),
                covkey="obs-fired", rule_extra="non-trivial: >= 20 effective ops and at least one probed observer callback"),
    "C10": dict(profile="misuse", flags=["-deep", "4", "-queries", "1", "-standing", "6"],
                quick=dict(plain=3200, checkptr=400), thorough=dict(plain=100000, checkptr=12000),
                covkey="misuse", rule_extra="non-trivial: >= 20 effective ops and at least one rejected call"),
    "C14": dict(profile="batch", flags=["-deep", "1", "-queries", "2", "-standing", "4", "-twin", "unsafe", "-matrix", "-minops", "40", "-maxops", "100"],
                quick=dict(plain=1710, checkptr=285), thorough=dict(plain=57000, checkptr=5700),
                covkey="", rule_extra="non-trivial: >= 20 effective ops"),
    "C15": dict(profile="shrink", flags=["-deep", "6", "-queries", "2", "-standing", "2", "-shrinkbounds", "-shrinkconv"],
                quick=dict(plain=2400, checkptr=400), thorough=dict(plain=80000, checkptr=12000),
                covkey="shrink", rule_extra="non-trivial: >= 20 effective ops and at least one Shrink call"),
    "C16": dict(profile="reset", flags=["-deep", "4", "-queries", "1", "-standing", "4", "-stats", "7"],
                quick=dict(plain=2400, checkptr=400), thorough=dict(plain=80000, checkptr=12000),
                covkey="reset", rule_extra="non-trivial: >= 20 effective ops and at least one Reset followed by further ops"),
    "C19": dict(profile="stats", flags=["-deep", "0", "-queries", "0", "-sweep", "4", "-stats", "3", "-replaychecks", "3"],
                quick=dict(plain=1600), thorough=dict(plain=50000),
                covkey="replay-twin", rule_extra="non-trivial: >= 20 effective ops and at least one replay-twin comparison of Stats()"),
}

ASSUME_ENGINE = [
    "the reference model (harness/eng/model.go) encodes the documented semantics correctly; it was written from the docs and cross-validated on >10^5 judgements",
    "observation happens at the public API only; internal states between operations are not inspected",
    "histories are generated, not enumerated: bounded length (150-600 ops), <= ~150 live entities, 21 component types plus up to 235 filler types",
    "Go runtime, compiler and (where used) race detector / checkptr / ASan are trusted",
]


def engine_jobs(prop, tier, seed, avoid, spec=None, extra_flags=None, label_prefix=""):
    spec = spec or ENGINE[prop]
    jobs = []
    scale = float(os.environ.get("VERIF_SCALE", "1"))          # internal: mutation sweeps run reduced volumes
    only = os.environ.get("VERIF_VARIANTS")                      # internal: restrict build variants
    for vi, (variant, cases) in enumerate(spec[tier].items()):
        if only and variant not in only.split(","):
            continue
        cases = max(16, int(cases * scale))
        nshard = NSHARD if cases >= 4 * NSHARD else max(1, cases // 4)
        if os.environ.get("VERIF_NSHARD"):
            nshard = int(os.environ["VERIF_NSHARD"])
        vseed = seed * 1000003 + vi * 7919
        for sh in range(nshard):
            args = ["-prop", prop, "-profile", spec["profile"], "-seed", str(vseed), "-shard", str(sh), "-nshards", str(nshard),
                    "-cases", str(cases)] + spec["flags"] + (extra_flags or [])
            if spec.get("covkey"):
                args += ["-covkey", spec["covkey"]]
            if avoid:
                args += ["-avoid", ",".join(avoid)]
            env = {}
            if prop == "C01" and tier == "thorough" and variant == "plain" and sh == 0:
                env["VERIF_BIGMEM"] = "1"  # scenario F29 (a 2 GiB column; about 2 GiB resident) runs in the thorough tier only
            if variant == "race":
                env["GORACE"] = "halt_on_error=0"
            jobs.append(dict(cmd="worker", variant=variant, args=args, label=f"{label_prefix}{spec['profile']}/{variant}/shard{sh}", env=env,
                             watchdog=3000 if tier == "thorough" else 900))
    return jobs


def plan(prop, tier, seed, avoid):
    if prop == "C02":
        # the quantifier of C02 includes dump/load: the dump/load differential (also used by C17) runs here too
        spec = ENGINE[prop]
        jobs = engine_jobs(prop, tier, seed, avoid)
        cases = 800 if tier == "quick" else 30000
        for sh in range(8):
            jobs.append(dict(cmd="serworker", variant="plain", label=f"serworker/shard{sh}", env={}, watchdog=3000,
                             args=["-seed", str(seed + 17), "-shard", str(sh), "-nshards", "8", "-cases", str(cases), "-pairs", "100"]))
        rule = (f"histories generated by profile 'churn' (see C01 for the scheme) plus dump/load round trips of churn worlds, 40% of them with the "
                f"dump used as a checkpoint (source world mutated between dump and load); {spec['rule_extra']}")
        return dict(jobs=jobs, rule=rule, assumptions=ASSUME_ENGINE)
    if prop == "C19":
        # entity statistics of worlds whose pool was installed by LoadEntities (several worlds loaded from one dump, loads after Reset)
        spec = ENGINE[prop]
        jobs = engine_jobs(prop, tier, seed, avoid)
        cases = 800 if tier == "quick" else 30000
        for sh in range(8):
            jobs.append(dict(cmd="serworker", variant="plain", label=f"serworker/shard{sh}", env={}, watchdog=3000,
                             args=["-seed", str(seed + 43), "-shard", str(sh), "-nshards", "8", "-cases", str(cases), "-pairs", "100"]))
        rule = (f"histories generated by profile '{spec['profile']}' (see C01 for the scheme) plus dump/load round trips of churn worlds: "
                f"Stats().Entities of source, loaded world, a sibling loaded from the same dump and a second load are compared with the numbers "
                f"of alive handles at dump time and during lockstep operation; {spec['rule_extra']}")
        return dict(jobs=jobs, rule=rule, assumptions=ASSUME_ENGINE)
    if prop == "C16":
        # Reset of a world whose entity pool was installed by LoadEntities (the dump/load worker resets every loaded world at the end)
        spec = ENGINE[prop]
        jobs = engine_jobs(prop, tier, seed, avoid)
        cases = 800 if tier == "quick" else 30000
        for sh in range(8):
            jobs.append(dict(cmd="serworker", variant="plain", label=f"serworker/shard{sh}", env={}, watchdog=3000,
                             args=["-seed", str(seed + 37), "-shard", str(sh), "-nshards", "8", "-cases", str(cases), "-pairs", "100"]))
        rule = (f"histories generated by profile '{spec['profile']}' (see C01 for the scheme) plus dump/load round trips of churn worlds at whose "
                f"end the loaded worlds are reset and used again (empty, unlocked, zero entity not alive, fresh non-reserved handles, relations "
                f"and target death work); {spec['rule_extra']}")
        return dict(jobs=jobs, rule=rule, assumptions=ASSUME_ENGINE)
    if prop == "C10":
        # the rejection of dead handles must also hold in a world whose entity pool was restored by LoadEntities
        spec = ENGINE[prop]
        jobs = engine_jobs(prop, tier, seed, avoid)
        cases = 800 if tier == "quick" else 30000
        for sh in range(8):
            jobs.append(dict(cmd="serworker", variant="plain", label=f"serworker/shard{sh}", env={}, watchdog=3000,
                             args=["-seed", str(seed + 29), "-shard", str(sh), "-nshards", "8", "-cases", str(cases), "-pairs", "100"]))
        rule = (f"histories generated by profile '{spec['profile']}' (see C01 for the scheme) plus dump/load round trips of churn worlds followed by "
                f"lockstep creations/removals, after which every dead handle is offered to RemoveEntity/CopyEntity/Unsafe.IDs/Unsafe.Add of the "
                f"loaded world; {spec['rule_extra']}")
        return dict(jobs=jobs, rule=rule, assumptions=ASSUME_ENGINE)
    if prop == "C03":
        # second job group: every case starts with the scripted method matrix of one typed tuple (all FilterN/QueryN methods of that
        # arity, Batch(rel...) followed by two overlapping queries of the same filter object with different per-query targets, ...)
        spec = ENGINE[prop]
        jobs = engine_jobs(prop, tier, seed, avoid)
        spec2 = dict(spec, flags=spec["flags"] + ["-matrix"], quick=dict(plain=570), thorough=dict(plain=22800))
        jobs += engine_jobs(prop, tier, seed + 3, avoid, spec2, None, "matrix:")
        # third job group: a second world with other component IDs runs every op with the same world-independent argument objects
        spec3 = dict(spec, flags=spec["flags"] + ["-twin", "shared"], quick=dict(plain=480), thorough=dict(plain=16000))
        jobs += engine_jobs(prop, tier, seed + 7, avoid, spec3, None, "shared:")
        rule = (f"histories generated by profile '{spec['profile']}' (see C01 for the scheme); job group 2 ('matrix:'): each history is preceded by "
                f"the scripted method matrix of one typed tuple (case index mod number of tuples); job group 3 ('shared:'): every op is also "
                f"executed on a second world with different component IDs, both worlds receiving the same relation argument lists (built once "
                f"with Rel/RelIdx) for their filters and queries; {spec['rule_extra']}")
        return dict(jobs=jobs, rule=rule, assumptions=ASSUME_ENGINE)
    if prop in ("C01", "C04"):
        # second job group: scale - thousands of entities in few tables, hundreds of relation targets and tables, 400-800 ops
        spec = ENGINE[prop]
        jobs = engine_jobs(prop, tier, seed, avoid)
        flags = [f for f in spec["flags"]]
        flags[flags.index("-standing") + 1] = "16"
        spec2 = dict(spec, profile="scale", flags=flags + ["-sweep", "10", "-stats", "20", "-minops", "400", "-maxops", "800"],
                     quick=dict(plain=64, checkptr=16), thorough=dict(plain=3200, checkptr=320))
        jobs += engine_jobs(prop, tier, seed + 13, avoid, spec2, None, "scale:")
        extra = ""
        if prop == "C01":
            # third job group: every case starts with the scripted method matrix of one typed tuple (each generated arity of
            # MapN / ExchangeN, single and batch forms, into empty and into populated tables)
            spec3 = dict(spec, flags=spec["flags"] + ["-matrix", "-minops", "60", "-maxops", "160"], quick=dict(plain=570), thorough=dict(plain=22800))
            jobs += engine_jobs(prop, tier, seed + 17, avoid, spec3, None, "matrix:")
            extra = ("; job group 3 ('matrix:'): each history is preceded by the scripted method matrix of one typed tuple (case index mod "
                     "number of tuples)")
        if prop == "C04":
            # third job group: a second world with other component IDs gets the same relation argument lists
            spec3 = dict(spec, flags=spec["flags"] + ["-twin", "shared"], quick=dict(plain=480), thorough=dict(plain=16000))
            jobs += engine_jobs(prop, tier, seed + 19, avoid, spec3, None, "shared:")
            extra = ("; job group 3 ('shared:'): every op is also executed on a second world with different component IDs, both worlds "
                     "receiving the same relation argument lists (built once with Rel/RelIdx)")
        rule = (f"histories generated by profile '{spec['profile']}' from splitmix64(VERIF_SEED, case index): world configuration "
                f"(capacities, component-ID offset, registration order) plus 150-600 ops drawn from the model state; distinct = distinct SHA-256 "
                f"of the rendered op list; job group 2 ('scale:'): profile 'scale' - 400-800 ops, up to 3000 alive entities in few tables "
                f"(batches of up to 900: several capacity doublings), relation targets drawn from a pool of 400 entities (hundreds of relation "
                f"tables, long free lists), state sweep every 10th op{extra}; {spec['rule_extra']}")
        return dict(jobs=jobs, rule=rule, assumptions=ASSUME_ENGINE)
    if prop == "C07":
        # second job group: the lock under concurrent queries (the documented parallel read-only use): the race worker of C13
        # at a smaller volume - shared lock bits, unbalanced unlocks and a world left locked show there, as do unsynchronised
        # accesses to the lock itself
        spec = ENGINE[prop]
        jobs = engine_jobs(prop, tier, seed, avoid)
        cases = 96 if tier == "quick" else 2400
        for sh in range(8):
            args = ["-seed", str(seed + 31), "-shard", str(sh), "-nshards", "8", "-cases", str(cases), "-reps", "4"]
            jobs.append(dict(cmd="raceworker", variant="race", args=args, label=f"raceworker/shard{sh}", env={}, race=True, watchdog=3000))
        rule = (f"histories generated by profile '{spec['profile']}' from splitmix64(VERIF_SEED, case index): world configuration "
                f"(capacities, component-ID offset, registration order) plus 150-600 ops drawn from the model state; distinct = distinct SHA-256 "
                f"of the rendered op list; job group 2 ('raceworker'): frozen worlds queried by 2-64 goroutines released by one barrier, "
                f"typed and ID-based filters, built with -race (see C13): lock state after every phase, panics of Close/Next, race reports; "
                f"{spec['rule_extra']}")
        return dict(jobs=jobs, rule=rule, assumptions=ASSUME_ENGINE)
    if prop == "C06":
        # second job group: every case starts with the scripted method matrix of one typed tuple
        spec = ENGINE[prop]
        jobs = engine_jobs(prop, tier, seed, avoid)
        spec2 = dict(spec, flags=spec["flags"] + ["-matrix", "-minops", "60", "-maxops", "160"], quick=dict(plain=570), thorough=dict(plain=22800))
        jobs += engine_jobs(prop, tier, seed + 23, avoid, spec2, None, "matrix:")
        rule = (f"histories generated by profile '{spec['profile']}' (see C01 for the scheme), every op also executed through the ID-based API on a "
                f"twin world; job group 2 ('matrix:'): each history is preceded by the scripted method matrix of one typed tuple (every batch "
                f"method of that MapN / ExchangeN arity, into empty and into populated tables); {spec['rule_extra']}")
        return dict(jobs=jobs, rule=rule, assumptions=ASSUME_ENGINE)
    if prop == "C15":
        # second job group: whole tables created, emptied, shrunk and refilled in bulk (initial capacities 64..256, batches of up to 150)
        spec = ENGINE[prop]
        jobs = engine_jobs(prop, tier, seed, avoid)
        spec2 = dict(spec, profile="bulk", flags=spec["flags"] + ["-minops", "80", "-maxops", "200"], quick=dict(plain=640, checkptr=160),
                     thorough=dict(plain=24000, checkptr=4000))
        jobs += engine_jobs(prop, tier, seed + 11, avoid, spec2, None, "bulk:")
        rule = (f"histories generated by profile 'shrink' (see C01 for the scheme); job group 2 ('bulk:'): profile 'bulk' - two hot component "
                f"types, initial capacities 64-256, batch creations of up to 150 entities (half of them without initial values), whole-table "
                f"batch removals and Shrink calls in between, so that tables grow past their initial capacity, run empty, are shrunk, refilled "
                f"without growing and reset with more than 64 rows; {spec['rule_extra']}")
        return dict(jobs=jobs, rule=rule, assumptions=ASSUME_ENGINE)
    if prop == "C14":
        # second job group: a second *typed* world with different component IDs executes every call with the same
        # world-independent argument objects (relation lists built with Rel/RelIdx are shared between the two worlds)
        spec = ENGINE[prop]
        jobs = engine_jobs(prop, tier, seed, avoid)
        spec2 = dict(spec, flags=[("shared" if f == "unsafe" else f) for f in spec["flags"]],
                     quick=dict(plain=855), thorough=dict(plain=28500))
        jobs += engine_jobs(prop, tier, seed + 5, avoid, spec2, None, "shared:")
        rule = (f"histories generated by profile 'batch' (see C01 for the scheme), each preceded by the scripted method matrix of one typed tuple; "
                f"job group 1: every op also executed through the ID-based API on a twin world; job group 2 ('shared:'): every op also executed "
                f"through the same typed path on a second world with different component IDs, both worlds using the same relation argument "
                f"lists (built once with Rel/RelIdx); {spec['rule_extra']}")
        return dict(jobs=jobs, rule=rule, assumptions=ASSUME_ENGINE)
    if prop in ENGINE:
        spec = ENGINE[prop]
        rule = (f"histories generated by profile '{spec['profile']}' from splitmix64(VERIF_SEED, case index): world configuration "
                f"(capacities, component-ID offset, registration order) plus 150-600 ops drawn from the model state; distinct = distinct SHA-256 "
                f"of the rendered op list; {spec['rule_extra']}")
        return dict(jobs=engine_jobs(prop, tier, seed, avoid), rule=rule, assumptions=ASSUME_ENGINE)
    import special
    return special.plan(prop, tier, seed, avoid)


def replay_plan(prop, rp):
    jobs = []
    for job in rp.get("jobs") or [rp["job"]]:
        args = list(job["args"])
        if "case" in rp and not rp.get("whole"):
            # (a C12 divergence may depend on the worlds that lived earlier in the same process: its replay reruns both whole jobs)
            args += ["-only", str(rp["case"])]
        # labels keep their form so that cross-process / cross-build comparisons work on replays too
        jobs.append(dict(cmd=job["cmd"], variant=job["variant"], args=args, label=job["label"], env=job.get("env", {}), watchdog=900))
    return dict(jobs=jobs, rule="replay of a recorded violation", assumptions=[])


def new_merge():
    return dict(cases=0, ops=0, hashes={}, samples=[], counters={}, scenarios={}, misuse={}, methods={}, masks=0, filters=0,
                digests={}, extra={})


def merge(m, res, job):
    m["cases"] += res.get("cases", 0)
    m["ops"] += res.get("ops", 0)
    for h, nt in (res.get("hashes") or {}).items():
        m["hashes"][h] = m["hashes"].get(h, False) or nt
    for s in res.get("samples") or []:
        if len(m["samples"]) < 3:
            m["samples"].append(s)
    for k, v in (res.get("counters") or {}).items():
        if k.startswith("max-"):
            m["counters"][k] = max(m["counters"].get(k, 0), v)
        else:
            m["counters"][k] = m["counters"].get(k, 0) + v
    for k, v in (res.get("scenarios") or {}).items():
        # several jobs (build variants) may run the same scenario: it holds only if it holds in all of them
        m["scenarios"][k] = (m["scenarios"].get(k) or []) + [x for x in v if x not in (m["scenarios"].get(k) or [])]
    for k, v in (res.get("misuse") or {}).items():
        m["misuse"][k] = m["misuse"].get(k, 0) + v
    for k, v in (res.get("methods") or {}).items():
        m["methods"][k] = m["methods"].get(k, 0) + v
    m["masks"] = max(m["masks"], res.get("distinct_masks", 0))
    m["filters"] = max(m["filters"], res.get("distinct_filters", 0))
    if res.get("digests"):
        m["digests"].setdefault(job["label"], {}).update(res["digests"])
        m.setdefault("jobs_by_label", {})[job["label"]] = {k: job[k] for k in ("cmd", "variant", "args", "label")} | {"env": job.get("env", {})}
    for k, v in (res.get("extra") or {}).items():
        if isinstance(v, (int, float)):
            m["extra"][k] = m["extra"].get(k, 0) + v
        else:
            m["extra"][k] = v


def cross_check(prop, merged, results):
    import special
    return special.cross_check(prop, merged, results)


def coverage_floor(prop, tier, merged):
    msgs = []
    if merged["cases"] == 0:
        msgs.append("no case was executed")
        return msgs
    nt = sum(1 for v in merged["hashes"].values() if v)
    if nt < 2:
        msgs.append(f"only {nt} distinct non-trivial cases")
    import special
    msgs += special.coverage_floor(prop, tier, merged)
    return msgs
