#!/bin/bash
# usage: procmut.sh <round> <Cxx> [race]   - collects a sub-agent's deliverables from /tmp/mut<round>_<Cxx>/MUT,
# validates them independently and evaluates the change against the property's quick check.
R=$1; ID=$2; RACE=${3:-}
cd /verif
SRC=/tmp/mut${R}_$ID/MUT; [ "$R" = 1 ] && SRC=/tmp/mut_$ID/MUT
D=seeded/$ID-$R; mkdir -p $D
cp $SRC/patch.diff $SRC/demo_test.go $D/ && cp $SRC/README.md $D/AGENT_README.md
echo "=== $ID-$R: $(tools/validatemut.sh $D $RACE 2>&1 | grep -c '^OK') of 5 validation steps OK"
tools/evalmut.sh $D/patch.diff quick $ID 2>&1 | head -3 | cut -c1-330
