#!/bin/bash
# usage: regress.sh [pattern]  - re-evaluates every seeded change (seeded/<id>/patch.diff) against the quick check of its own
# property on a scratch worktree; prints one line per change. Runs from a snapshot copy of /verif (harness, tools, seeded
# changes) under /tmp, so that work on /verif in the meantime does not mix harness versions; the snapshot is removed at the end.
SNAP=/tmp/verif_snap_$$
mkdir -p $SNAP
rsync -a --exclude build --exclude replays --exclude .git --exclude evidence /verif/ $SNAP/
trap 'rm -rf $SNAP' EXIT
cd $SNAP
for d in seeded/${1:-*}/; do
  id=$(basename $d); prop=${id%-*}
  line=$(tools/evalmut.sh $d/patch.diff quick $prop 2>&1 | head -1)
  rc=$(echo "$line" | sed -n 's/.*rc=\([0-9]*\).*/\1/p')
  n=$(echo "$line" | sed -n 's/.* \([0-9]*\) violation(s).*/\1/p')
  echo "$id rc=$rc violations=$n"
done
