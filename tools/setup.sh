#!/bin/bash
# Offline setup: pre-builds every worker variant from files on disk (warms the Go build cache).
cd "$(dirname "$0")/.." || exit 1
python3 - <<'PY'
import sys, os
sys.path.insert(0, "tools")
import orch
ok = True
for cmd, variants in {
    "worker": ["plain", "checkptr", "tiny", "debug", "tinydebug"],
    "raceworker": ["race"],
    "serworker": ["plain"],
    "regworker": ["plain", "tiny"],
}.items():
    for v in variants:
        b, msg = orch.build(cmd, v)
        print(msg if b else "BUILD FAILED " + cmd + "/" + v + "\n" + msg[-2000:])
        ok = ok and b is not None
sys.exit(0 if ok else 1)
PY
