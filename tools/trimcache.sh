#!/bin/bash
# Trims the go build cache when the disk gets tight: removes entries not used for over 100 minutes (go refreshes the mtime of
# an entry on use once it is older than an hour, so these have not been read for at least 40 minutes; a missing entry is a cache
# miss and rebuilt). Safe to run while checks are building, unlike `go clean -cache`.
free=$(df --output=avail -BG / | tail -1 | tr -dc 0-9)
[ "$free" -lt "${1:-40}" ] || exit 0
find "${GOCACHE:-$HOME/.cache/go-build}" -type f -mmin +100 -not -name trim.txt -not -name README -delete 2>/dev/null
exit 0
