#!/bin/bash
# usage: validatemut.sh <dir with patch.diff and demo_test.go> [race]
# Confirms in a scratch worktree of /repo HEAD: suite passes with the change (3 tag sets),
# demo passes without the change, demo fails with it. Removes the worktree afterwards.
set -u
D=$(realpath "$1"); RACE=${2:-}
. /verif/tools/goenv.sh
WT=/tmp/val_$$
git -C /repo worktree add -q --detach $WT HEAD || exit 2
trap 'git -C /repo worktree remove --force $WT' EXIT
cd $WT
RF=""; [ -n "$RACE" ] && RF="-race"
cp $D/demo_test.go ecs/zz_demo_test.go
if $VGO test $RF -count=1 -run TestSeededDemo ./ecs/ >/tmp/val_out_$$ 2>&1; then echo "OK   demo passes without the change"; else echo "FAIL demo fails WITHOUT the change"; tail -20 /tmp/val_out_$$; fi
rm ecs/zz_demo_test.go
if ! git apply $D/patch.diff; then echo "FAIL patch does not apply"; exit 1; fi
for tags in "" ark_tiny ark_debug; do
  if $VGO test -vet=off -count=1 -tags "$tags" ./... >/tmp/val_out_$$ 2>&1; then echo "OK   suite passes with the change (tags='$tags')"; else echo "FAIL suite fails with the change (tags='$tags')"; tail -20 /tmp/val_out_$$; fi
done
cp $D/demo_test.go ecs/zz_demo_test.go
if $VGO test $RF -count=1 -run TestSeededDemo ./ecs/ >/tmp/val_out_$$ 2>&1; then echo "FAIL demo PASSES with the change"; else echo "OK   demo fails with the change"; grep -m3 -E "^\s+zz_demo_test.go|panic:|DATA RACE|--- FAIL" /tmp/val_out_$$; fi
rm -f /tmp/val_out_$$
